--------------------------- MODULE Trace_Events ---------------------------
(***************************************************************************)
(* V stage of C11: the base events of the Yata executor (loc, dlv, sync)   *)
(* carry the extra field `c11` recorded by the observers of the acting     *)
(* replica (harness/src/ext/events.rs).  The actions below evaluate the    *)
(* base checks of Trace_Yata AND the C11 predicates of Events.tla on the   *)
(* acting replica's state before (R) and after (R2) the transaction.       *)
(* LocalX is the body of Trace_Yata!Local (kept in sync by reusing         *)
(* StepChecks, ObsRep, Extend, ...) plus the C11 checks and the explicit   *)
(* deletions of a multi-operation transaction.                             *)
(***************************************************************************)
EXTENDS Trace_Yata, Events

HasC11 == "c11" \in DOMAIN Ev

C11Checks(E2, R, R2) ==
  IF ~HasC11 THEN <<>>
  ELSE LET c == Ev.c11
       IN << <<"C11_ScriptApplies", C11_ScriptApplies(c)>>,
             <<"C11_EventExact", C11_EventExact(E2, R2, c)>>,
             <<"C11_ScriptExact", C11_ScriptExact(E2, R, R2, c)>>,
             <<"C11_OldValues", C11_OldValues(E2, R, R2, c)>>,
             <<"C11_AtMostOnce", C11_AtMostOnce(c)>>,
             <<"C11_NoEventIfUntouched", C11_NoEventIfUntouched(E2, R, R2, c)>>,
             <<"C11_FiresOnChange", C11_FiresOnChange(E2, R, R2, c)>>,
             <<"C11_DeepPaths", C11_DeepPaths(E2, R, R2, c)>> >>

(* local operation (one call, or several calls inside one transaction: call.a = "multi");   *)
(* body of Trace_Yata!Local + explicit deletions of a multi transaction + C11 checks      *)
LocalX ==
  /\ Ev.k = "loc" /\ ~failed
  /\ LET r  == Ev.r
         us == Ev.upd.ins
         E2 == Extend(us)
         R  == S[r]
         R2 == ObsRep(Ev.obs, R.dlv \cup InsIds(us), R.ddel \cup Ids(Ev.upd.del) \cup ImplicitDel(us))
         ok == WellFormed(E2, Ev.obs)
         changed == Have(R2) # Have(R) \/ (R2.dead \cup R2.gone) # (R.dead \cup R.gone)
         newIds == InsIds(us)
         call == Ev.call
         visB == Visible(E, R, Ev.cont)
         visA == IF ok THEN Visible(E2, R2, Ev.cont) ELSE <<>>
         seqOk ==
           CASE call.a \in {"ins", "emb", "insa"} ->
                  /\ Len(visA) >= Len(visB)
                  /\ SubSeq(visA, 1, call.i) = SubSeq(visB, 1, call.i)
                  /\ SubSeq(visA, call.i + 1 + (Len(visA) - Len(visB)), Len(visA)) = SubSeq(visB, call.i + 1, Len(visB))
                  /\ Range(SubSeq(visA, call.i + 1, call.i + (Len(visA) - Len(visB)))) \subseteq newIds
                  /\ Len(visA) > Len(visB)
             [] call.a = "del" ->
                  visA = SubSeq(visB, 1, call.i) \o SubSeq(visB, call.i + call.n + 1, Len(visB))
             [] call.a = "set" -> Len(visA) = 1 /\ visA[1] \in newIds
             [] call.a = "rem" -> visA = <<>>
             [] call.a = "fmt" -> visA = visB
             [] OTHER -> TRUE
         XD2 == IF call.a \in {"del", "rem"} THEN XD \cup (Range(visB) \ Range(visA))
                \* marks removed by a format call are not implied by anything the receivers integrate: they are input
                \* a multi-operation transaction: every deletion it carries counts as explicit (stricter SameInput,
                \* hence never more demanding for C01_Converge)
                ELSE IF call.a \in {"fmt", "multi"} THEN XD \cup Ids(Ev.upd.del)
                ELSE XD
         \* sequential meaning of the rich-text calls on the rendered attributes (only where marks are around)
         rich == ok /\ Ev.cont \in DOMAIN R2.lst /\ ~Keyed(E2, R2.lst[Ev.cont]) /\ Marked(E2, R2.lst[Ev.cont])
         RB == RenderOf(E, R, Ev.cont)
         RA == RenderOf(E2, R2, Ev.cont)
         richOk ==
           CASE call.a \in {"ins", "emb"} -> C03_RichInsert(RB, RA, call.i, newIds)
             [] call.a = "insa" -> C03_RichInsertWith(RB, RA, call.i, newIds, call.key, call.v)
             [] call.a = "del" -> C03_RichDelete(RB, RA, call.i, call.n)
             [] call.a = "fmt" -> C03_RichFormat(RB, RA, call.i, call.n, call.key, call.v)
             [] OTHER -> TRUE
         fresh == {us[i].id : i \in FreshIdx(us)}
         SEEN2 == [x \in DOMAIN SEEN \cup fresh |->
                     IF x \in DOMAIN SEEN THEN SEEN[x]
                     ELSE Range(Lst(R.lst, us[CHOOSE i \in FreshIdx(us) : us[i].id = x].cont))]
         chk == IF ~ok THEN << <<"C04_Placed", FALSE>> >>
                ELSE StepChecks(E2, XD2, SEEN2, r, R, R2, Ev.obs, call.a = "gcf")
                     \o << <<"C03_NoFailure", Ev.outcome = "ok">>,
                           <<"C09_WireConsistent", WireConsistent(us) /\ Ev.wire = "">>,
                           <<"C04_FreshIds", \A i \in RealUnits(us) : us[i].id \notin DOMAIN E /\ us[i].id[1] = r>>,
                           <<"C04_AllIntegrated", newIds \subseteq Have(R2) /\ R2.pend = R.pend>>,
                           <<"C03_Sequential", Ev.outcome # "ok" \/ seqOk>>,
                           <<"C03_RichSequential", Ev.outcome # "ok" \/ ~rich \/ richOk>>,
                           <<"C07_EmitIffChanged", Ev.nev = (IF changed THEN <<1, 1>> ELSE <<0, 0>>)>> >>
                     \o (IF Ev.hasfol THEN FolChecks(E2, R2, Ev.obs, Ev.fol.v1) \o FolChecks(E2, R2, Ev.obs, Ev.fol.v2) ELSE <<>>)
                     \o C11Checks(E2, R, R2)
         dr == (IF ok /\ ~PlacementPredicted(E2, R, R2) THEN {"placement"} ELSE {})
               \cup (IF ok /\ ~StashTight(R2) THEN {"stash-not-tight"} ELSE {})
               \cup (IF ok THEN StrongDrift(E2, XD2, UserDel \cup Ids(Ev.upd.del), r, R2) ELSE {})
     IN /\ Record(Failing(chk), dr)
        /\ E' = E2 /\ XD' = XD2 /\ SEEN' = SEEN2
        /\ U' = IF call.a = "gcf" THEN U ELSE Append(U, [ins |-> InsIds(us), del |-> Ids(Ev.upd.del)])
        /\ S' = [S EXCEPT ![r] = R2]
        /\ cnt' = [cnt EXCEPT !.ev = @ + 1, !.checks = @ + Len(chk)]
  /\ UNCHANGED <<ln0, bid, cfg>>

DlvExtra(E2, R, R2) == AlgebraChecks(E2, R, R2) \o C11Checks(E2, R, R2)

DeliverX ==
  /\ Ev.k = "dlv" /\ ~failed
  /\ ApplyTo(Ev.r, [ins |-> Ev.full.ins, del |-> Ev.full.del], Ev.emit, Ev.outcome, Ev.wire, Ev.obs, Ev.nev, Ev.hasfol, Ev.fol, DlvExtra)
  /\ UNCHANGED <<ln0, bid, cfg>>

SyncX ==
  /\ Ev.k = "sync" /\ ~failed
  /\ LET F == S[Ev.f]
         Extra(E2, R, R2) ==
           << <<"C06_SenderUnchanged",
                  ObsRep(Ev.fobs, F.dlv, F.ddel) = F>>,
              <<"C06_Dominates", Have(F) \subseteq Have(R2)>>,
              <<"C06_Reflects", (F.dead \cup F.gone) \subseteq (R2.dead \cup R2.gone)>>,
              <<"C02_StateCarriesStash", Ev.how # "state" \/
                   ( /\ (F.pend \ Have(R)) \subseteq InsIds(Ev.upd.ins)
                     /\ F.pds \subseteq Ids(Ev.upd.del) )>>,
              <<"C06_Complete", \A x \in Have(F) : x \in Have(R) \/ x \in InsIds(Ev.upd.ins)>>,
              <<"C06_Monotone", \A x \in SVOf(Have(R)) : \E y \in SVOf(Have(R2)) : y[1] = x[1] /\ y[2] >= x[2]>> >>
           \o C11Checks(E2, R, R2)
     IN ApplyTo(Ev.t, Ev.upd, Ev.emit, Ev.outcome, Ev.wire, Ev.obs, Ev.nev, Ev.hasfol, Ev.fol, Extra)
  /\ UNCHANGED <<ln0, bid, cfg>>

TNextX == /\ l <= Len(Rec)
          /\ l' = l + 1
          /\ (Reset \/ Skip \/ LocalX \/ DeliverX \/ SvOfUpdate \/ SyncX \/ Nondet \/ Crash)

TSpecX == TInit /\ [][TNextX]_vars
=============================================================================
