CONSTANTS
  Owners = {1, 2}
  Setters = {1, 2}
  Obs = {9}
  Val = {"a"}
  FirstVal = "a"
  MaxClock = 2
  MaxUpd = 2
  MaxSteps = 1000
  Dups = TRUE
SPECIFICATION Spec
INVARIANTS InvWellFormed InvMonotone InvNoLower InvOwnKept InvLocalMonotone InvIdempotent InvOrder InvUniqueValue InvMaximum
CHECK_DEADLOCK FALSE
VIEW view
