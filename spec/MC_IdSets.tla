----------------------------- MODULE MC_IdSets -----------------------------
(***************************************************************************)
(* Bounded model over the IdSets operators.  The states are ABSTRACT       *)
(* values (sets of points / attributed points) built in two registers by   *)
(* construction programs: every sequence of <= MaxOps range insertions and *)
(* removals over a small universe.                                         *)
(*  - design check (VIEW hides the history): the algebraic laws and the    *)
(*    canonical-form laws hold for every reachable value / pair of values; *)
(*  - G stage, Pairs = FALSE: the history is visible, every state is the   *)
(*    end of a distinct construction program, and every program is printed *)
(*    (a prefix of a program is a program);                                *)
(*  - G stage, Pairs = TRUE with VIEW: every ordered pair of reachable     *)
(*    VALUES is printed once with a shortest construction program each.    *)
(***************************************************************************)
EXTENDS IdSets, Json, TLC

CONSTANTS Kind,        \* "set" (IdSet) or "map" (IdMap)
          Clients,     \* client ids
          U,           \* clocks 0..U-1, ranges [lo,hi) with 0 <= lo <= hi <= U
          AttrLists,   \* attribute lists an insertion may carry ({<<>>} for Kind = "set")
          EmptyAt,     \* positions e at which the empty range [e,e) is offered as an argument
          MaxOps,      \* operations per register
          Pairs,       \* build a second register
          FiMax        \* > 0: the first step of register A may be from_iter with <= FiMax ranges per client

(* values for AttrLists (a cfg file cannot spell tuples): AttrLists <- AttrsSet etc. *)
AttrsSet == {<<>>}
AttrsMap == {<<"a">>, <<"b">>, <<"a", "b">>}
AttrsMapX == {<<"a">>, <<"b">>, <<"a", "b">>, <<"b", "a">>, <<"a", "a">>}

VARIABLES A, B, phase, n, hist
vars == <<A, B, phase, n, hist>>
view == <<A, B, phase, n>>

Ranges == {r \in (0..U) \X (0..U) : r[1] < r[2]} \cup {<<e, e>> : e \in EmptyAt}
Ops(reg) ==
  {[reg |-> reg, a |-> "ins", c |-> c, lo |-> r[1], hi |-> r[2], at |-> at] : c \in Clients, r \in Ranges, at \in AttrLists}
  \cup {[reg |-> reg, a |-> "rem", c |-> c, lo |-> r[1], hi |-> r[2], at |-> <<>>] : c \in Clients, r \in Ranges}

(* from_iter arguments: one entry per client (distinct clients, either order), <= FiMax ranges each,
   in any order, overlapping or empty ranges included *)
RangeSeqs == UNION {[1..k -> Ranges] : k \in 0..FiMax}
FiItems ==
  UNION {{[i \in 1..Len(cs) |-> [c |-> cs[i], rs |-> f[i]]] : f \in [1..Len(cs) -> RangeSeqs]} : cs \in
            {<<>>} \cup {<<c>> : c \in Clients} \cup {<<x[1], x[2]>> : x \in {y \in Clients \X Clients : y[1] # y[2]}}}

Init == A = EmptyVal /\ B = EmptyVal /\ phase = "A" /\ n = 0 /\ hist = <<>>

StepA == /\ phase = "A" /\ n < MaxOps
         /\ \/ \E op \in Ops("A") : A' = ApplyOp(A, op) /\ hist' = Append(hist, op)
            \/ /\ FiMax > 0 /\ n = 0
               /\ \E it \in FiItems : A' = FromIter(it) /\ hist' = Append(hist, [reg |-> "A", a |-> "fi", items |-> it])
         /\ n' = n + 1 /\ UNCHANGED <<B, phase>>
Switch == /\ Pairs /\ phase = "A" /\ phase' = "B" /\ n' = 0 /\ UNCHANGED <<A, B, hist>>
StepB == /\ phase = "B" /\ n < MaxOps
         /\ \E op \in Ops("B") : B' = ApplyOp(B, op) /\ hist' = Append(hist, op)
         /\ n' = n + 1 /\ UNCHANGED <<A, phase>>
Next == StepA \/ Switch \/ StepB
Spec == Init /\ [][Next]_vars

---------------------------------------------------------------------------
(* design invariants *)
InvLaws == Laws(A, B) /\ Laws(B, A)
InvCanon == CanonLaws(A) /\ CanonLaws(B) /\ CanonLaws(Merge(A, B)) /\ CanonLaws(Intersect(A, B)) /\ CanonLaws(Diff(A, B))
(* a program denotes the value that folding the operators over it yields (ApplyProg is what V uses) *)
ProgOf(reg) == SelectSeq(hist, LAMBDA op : op.reg = reg /\ op.a # "fi")
InvProg == (FiMax = 0) => (ApplyProg(EmptyVal, ProgOf("A")) = A /\ ApplyProg(EmptyVal, ProgOf("B")) = B)
InvKind == Kind = "set" => \A p \in DOMAIN A : A[p] = {}

(* G: print programs *)
PrintSchedules ==
  (Pairs => phase = "B") =>
     PrintT(<<"REPLAY", ToJson(IF Pairs THEN [h |-> hist, ka |-> Canon(A), kb |-> Canon(B)] ELSE [h |-> hist])>>)
=============================================================================
