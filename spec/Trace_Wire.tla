---------------------------- MODULE Trace_Wire ----------------------------
(***************************************************************************)
(* V stage of the Wire check (C09): validates what the harness recorded    *)
(* from the real encoders/decoders.  Events are independent of each other  *)
(* (no state is carried between them), so every event is judged; a failed  *)
(* predicate is recorded under the id of the *case* (cid), not of the      *)
(* chunk, so that each failing input is reported on its own.               *)
(*   col : one letter sequence pushed through every column program         *)
(*   upd : an update built around a block / range / delete-set class       *)
(*   val : a value of another wire type                                    *)
(*   yjs : a payload produced by the reference implementation              *)
(***************************************************************************)
EXTENDS Wire, Json, IOUtils

Rec == ndJsonDeserialize(IOEnv.TRACE)

VARIABLES l, bid, viol, drift, cnt
vars == <<l, bid, viol, drift, cnt>>

Ev == Rec[l]

---------------------------------------------------------------------------
Expected(c) ==
  IF c.codec = "raw" THEN [i \in 1..Len(c.inp) |-> <<"u", c.inp[i]>>]
  ELSE TokensOf(c.codec, c.inp)

(* C09_ColumnRoundTrip: the values read back are the values written *)
ColBad(c) == c.outcome # "ok" \/ c.out # c.inp
(* implementation-level prediction: the bytes are the token stream of the transcribed encoder *)
ColDrift(c) == c.hastok /\ ~ColBad(c) /\ c.tok # Expected(c)
ColName(c) == Ev.cid \o "/" \o c.col \o "/" \o c.enc \o "/" \o c.map

Col ==
  /\ Ev.k = "col"
  /\ LET ix  == 1..Len(Ev.cols)
         bad == {i \in ix : ColBad(Ev.cols[i])}
         dr  == {i \in ix : ColDrift(Ev.cols[i])}
         tr  == {i \in ix : Ev.cols[i].outcome = "ok" /\ Ev.cols[i].left # 0}
     IN /\ viol' = viol \cup {<<ColName(Ev.cols[i]), "C09_ColumnRoundTrip", l>> : i \in bad}
        /\ drift' = drift \cup {<<ColName(Ev.cols[i]), "token-stream", l>> : i \in dr}
                          \cup {<<ColName(Ev.cols[i]), "trailing-bytes", l>> : i \in tr}
        /\ cnt' = [cnt EXCEPT !.beh = @ + Len(Ev.cols), !.ev = @ + Len(Ev.cols),
                              !.checks = @ + Len(Ev.cols) + Cardinality({i \in ix : Ev.cols[i].hastok})]
  /\ UNCHANGED bid

---------------------------------------------------------------------------
SameAs(a, b) == a.ok /\ b.ok /\ a.c = b.c
EffOk == Len(Ev.eff) > 0 =>
           /\ Len(Ev.eff) = 3
           /\ \A i \in 1..3 : Ev.eff[i].ok /\ Ev.eff[i].c = Ev.eff[1].c
(* a document that integrated the payload completely puts the same units on the wire again, in both encodings *)
StateOk == (Ev.x.ok /\ ~Ev.pend) => (SameAs(Ev.su1, Ev.xu) /\ SameAs(Ev.su2, Ev.xu))
Failing(chk) == {chk[i][1] : i \in {j \in 1..Len(chk) : ~chk[j][2]}}
Notes == {<<Ev.cid, Ev.notes[i], l>> : i \in 1..Len(Ev.notes)}

(* the harness built what TLC enumerated: the independent decoder sees the class on the wire *)
Bound ==
  CASE Ev.case.k = "block" ->
         LET q == Projection(Ev.case) f == Ev.feat
         IN f.found /\ f.kind = q.kind /\ f.o = q.o /\ f.ro = q.ro /\ f.len = q.len /\ f.par = q.par /\ f.sub = q.sub
    [] Ev.case.k = "range" -> Ev.feat.found /\ Ev.feat.kind = Ev.case.kind /\ Ev.feat.len = Ev.case.n
    [] OTHER -> TRUE

Upd ==
  /\ Ev.k = "upd"
  /\ LET chk == << <<"T_ClassBinding", Ev.x.ok /\ Bound>>,
                   <<"C09_RoundTripV1", SameAs(Ev.v1, Ev.x)>>,
                   <<"C09_RoundTripV2", Ev.v1.ok => SameAs(Ev.v2, Ev.v1)>>,
                   <<"C09_CrossEncoding", SameAs(Ev.x12, Ev.x)>>,
                   <<"C09_SameEffect", EffOk>>,
                   <<"C09_StateReadBack", StateOk>> >>
     IN /\ viol' = viol \cup {<<Ev.cid, p, l>> : p \in Failing(chk)}
        /\ drift' = drift \cup Notes
        /\ cnt' = [cnt EXCEPT !.beh = @ + 1, !.ev = @ + 1, !.checks = @ + Len(chk)]
  /\ UNCHANGED bid

Val ==
  /\ Ev.k = "val"
  /\ LET chk == << <<"C09_RoundTripV1", SameAs(Ev.v1, Ev.x)>>,
                   <<"C09_RoundTripV2", SameAs(Ev.v2, Ev.x)>>,
                   <<"C09_CrossEncoding", SameAs(Ev.x12, Ev.x)>> >>
         tagdr == IF Ev.case.k = "any" /\ Ev.v1.ok /\ Ev.feat.tag # OuterTag(Ev.case.outer, Ev.case.leaf)
                  THEN {<<Ev.cid, "any-type-tag", l>>} ELSE {}
     IN /\ viol' = viol \cup {<<Ev.cid, p, l>> : p \in Failing(chk)}
        /\ drift' = drift \cup Notes \cup tagdr
        /\ cnt' = [cnt EXCEPT !.beh = @ + 1, !.ev = @ + 1, !.checks = @ + Len(chk) + 1]
  /\ UNCHANGED bid

Yjs ==
  /\ Ev.k = "yjs"
  /\ LET ok == SameAs(Ev.v1, Ev.x) /\ SameAs(Ev.v2, Ev.x) /\ SameAs(Ev.x12, Ev.x) /\ EffOk /\ StateOk
     IN /\ viol' = viol \cup (IF ok THEN {} ELSE {<<Ev.cid, "C09_YjsPayload", l>>})
        /\ drift' = drift \cup Notes
        /\ cnt' = [cnt EXCEPT !.beh = @ + 1, !.ev = @ + 1, !.checks = @ + 1]
  /\ UNCHANGED bid

Broken ==   \* the harness itself failed on this case: tool-level, never a verdict
  /\ Ev.k = "broken"
  /\ viol' = viol \cup {<<Ev.cid, "T_HarnessBroken", l>>}
  /\ UNCHANGED <<bid, drift, cnt>>

Reset ==
  /\ Ev.k = "reset"
  /\ bid' = Ev.bid
  /\ UNCHANGED <<viol, drift, cnt>>

TInit == l = 1 /\ bid = "" /\ viol = {} /\ drift = {} /\ cnt = [beh |-> 0, ev |-> 0, checks |-> 0]
TNext == /\ l <= Len(Rec)
         /\ l' = l + 1
         /\ (Reset \/ Col \/ Upd \/ Val \/ Yjs \/ Broken)
TSpec == TInit /\ [][TNext]_vars

Verdict == l = Len(Rec) + 1 =>
             PrintT(<<"VERDICT", ToJson([viol |-> viol, drift |-> drift, cnt |-> cnt, lines |-> Len(Rec)])>>)
Consumed == TLCGet("stats").diameter = Len(Rec) + 1
=============================================================================
