CONSTANTS
  Authors = {1, 2}
  Obs = 8
  MaxOps = 3
  SeqRoots = {"t", "a"}
  MapKeys = {"k1", "k2"}
  Nest = TRUE
  MaxDel = 9
  Merge = FALSE
  Script <- S_fmtdel_2
  Dups = FALSE
SPECIFICATION Spec
INVARIANTS InvOnce InvPlaced InvBetween InvDepClosed InvNothingLost InvPending InvConverge InvPairOrder InvClosed PrintSchedules
CHECK_DEADLOCK FALSE
