CONSTANTS
  Family = "text"
  Unit = "bytes"
  MaxOps = 6
SPECIFICATION Spec
INVARIANTS InvWellFormed InvUniqueTags PrintSchedules
CHECK_DEADLOCK FALSE
