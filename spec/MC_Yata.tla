----------------------------- MODULE MC_Yata -----------------------------
(***************************************************************************)
(* Design model over the Yata operators: a producer phase in which authors *)
(* edit and exchange updates, then a consumer phase in which an observer   *)
(* receives the emitted updates in every order.  Used twice:               *)
(*  - design check: all invariants in every reachable state (history       *)
(*    hidden by VIEW);                                                     *)
(*  - G stage: with the history variable visible every behaviour is a      *)
(*    distinct path; each complete one is printed as a schedule for X.     *)
(***************************************************************************)
EXTENDS Yata, Json

CONSTANTS Authors,      \* set of client ids that edit
          Obs,          \* the observer's client id
          MaxOps,       \* total number of local operations
          SeqRoots,     \* subset of {"t", "a"}: root sequences that may be edited
          MapKeys,      \* keys of root map "m" that may be written ({} = no map operations)
          Nest,         \* allow nested arrays / maps as values
          MaxDel,       \* total number of delete / remove operations
          Dups,         \* observer may receive an update twice
          Merge,        \* observer may receive several updates merged into one (merge_updates)
          Script        \* <<>> = free author phase; otherwise the sequence of local operations to perform (see MC_YataScript)

NoScript == <<>>

VARIABLES E, XD, S, upd, got, known, ops, dels, phase, hist
vars == <<E, XD, S, upd, got, known, ops, dels, phase, hist>>
view == <<E, XD, S, upd, got, known, ops, dels, phase>>

Reps == Authors \cup {Obs}

NextId(r) == <<r, Cardinality({x \in DOMAIN E : x[1] = r})>>
AddElems(new) == [id \in DOMAIN E \cup DOMAIN new |-> IF id \in DOMAIN new THEN new[id] ELSE E[id]]

(* the deterministic algorithm applied by a replica to a set of element units and deletions *)
ApplyAlg(EE, R, ins, del) ==
  LET cand  == (ins \cup R.pend) \ Have(R)
      res   == IntegrateAll(EE, R.lst, Have(R), cand)
      ddel2 == R.ddel \cup del
  IN [lst |-> res[1], dead |-> ExpectedDead(EE, res[1], R.gone, ddel2), gone |-> R.gone,
      pend |-> res[3], pds |-> ddel2 \ res[2], dlv |-> R.dlv \cup ins, ddel |-> ddel2]

(* sequence containers a replica can currently reach: roots and visible nested arrays *)
IsType(x, t) == E[x].kind = "type" /\ E[x].t = t
NestedConts(R, t) == {x \in Units(R.lst) : IsType(x, t) /\ Reachable(E, R, x, 8)}
SeqConts(r) == {<<rt, None>> : rt \in SeqRoots} \cup {<<"", x>> : x \in NestedConts(S[r], "array")}
MapConts(r) == (IF MapKeys = {} THEN {} ELSE {<<"m", None>>}) \cup {<<"", x>> : x \in NestedConts(S[r], "map")}
\* container key strings are built from ids by the same rule as the harness: root|sub or c:k|sub
IdStr(x) == ToString(x[1]) \o ":" \o ToString(x[2])
ContKey(cn, sub) == (IF cn[2] = None THEN cn[1] ELSE IdStr(cn[2])) \o "|" \o sub

(* path by which the public API reaches a container: root name, then keys / #indexes *)
RECURSIVE PathOf(_, _, _)
PathOf(R, cn, fuel) ==
  IF cn[2] = None \/ fuel = 0 THEN <<cn[1]>>
  ELSE LET x  == cn[2]
           pc == IF E[x].par = None THEN <<E[x].root, None>> ELSE <<"", E[x].par>>
           seg == IF E[x].sub # "" THEN E[x].sub
                  ELSE "#" \o ToString(IndexOf(Visible(E, R, E[x].cont), x) - 1)
       IN PathOf(R, pc, fuel - 1) \o <<seg>>

Elem(o, ro, cn, sub, kind, t) ==
  [o |-> o, ro |-> ro, cont |-> ContKey(cn, sub), sub |-> sub, par |-> cn[2], kind |-> kind, t |-> t,
   root |-> cn[1], q |-> <<>>, w8 |-> 1]

Emit(r, R2, ins, del) ==
  /\ upd' = Append(upd, [ins |-> ins, del |-> del])
  /\ known' = [known EXCEPT ![r] = @ \cup {Len(upd) + 1}]
  /\ S' = [S EXCEPT ![r] = R2]
  /\ ops' = ops + 1
  /\ UNCHANGED <<got, phase>>

(* insert one element (kind u = primitive, A = nested array with one element, M = nested map *)
(* with one entry) at visible index i: left neighbour is the i-th visible element followed by *)
(* the tombstones right of it (text placement rule)                                           *)
RECURSIVE SkipDead(_, _, _)
SkipDead(s, dead, i) == IF i < Len(s) /\ s[i + 1] \in dead THEN SkipDead(s, dead, i + 1) ELSE i
LocalIns(r, cn, i, k) ==
  LET R   == S[r]
      c   == ContKey(cn, "")
      s   == Lst(R.lst, c)
      v   == Visible(E, R, c)
      lp  == IF i = 0 THEN 0 ELSE IndexOf(s, v[i])
      at  == SkipDead(s, R.dead, lp)
      id  == NextId(r)
      kid == <<r, id[2] + 1>>
      o   == IF at = 0 THEN None ELSE s[at]
      ro  == IF at = Len(s) THEN None ELSE s[at + 1]
      new == IF k = "u" THEN (id :> Elem(o, ro, cn, "", IF cn[1] = "t" THEN "str" ELSE "any", ""))
             ELSE IF k = "A" THEN (id :> Elem(o, ro, cn, "", "type", "array")) @@
                                  (kid :> Elem(None, None, <<"", id>>, "", "any", ""))
             ELSE (id :> Elem(o, ro, cn, "", "type", "map")) @@
                  (kid :> Elem(None, None, <<"", id>>, "k1", "any", ""))
      E2  == AddElems(new)
      R2  == ApplyAlg(E2, R, DOMAIN new, {})
  IN /\ E' = E2 /\ XD' = XD
     /\ Emit(r, R2, DOMAIN new, {})
     /\ dels' = dels
     /\ hist' = Append(hist, [a |-> "ins", r |-> r, p |-> PathOf(R, cn, 4), i |-> i, n |-> 1, k |-> k])

(* insert n primitive units at visible index i as ONE operation (one block: unit j+1 has origin unit j); h = history record *)
InsNWith(r, cn, i, n, h) ==
  LET R   == S[r]
      c   == ContKey(cn, "")
      s   == Lst(R.lst, c)
      v   == Visible(E, R, c)
      lp  == IF i = 0 THEN 0 ELSE IndexOf(s, v[i])
      at  == SkipDead(s, R.dead, lp)
      id  == NextId(r)
      o   == IF at = 0 THEN None ELSE s[at]
      ro  == IF at = Len(s) THEN None ELSE s[at + 1]
      new == [x \in {<<r, id[2] + j>> : j \in 0..(n - 1)} |->
                Elem(IF x[2] = id[2] THEN o ELSE <<r, x[2] - 1>>, ro, cn, "", IF cn[1] = "t" THEN "str" ELSE "any", "")]
      E2  == AddElems(new)
      R2  == ApplyAlg(E2, R, DOMAIN new, {})
  IN /\ E' = E2 /\ XD' = XD
     /\ Emit(r, R2, DOMAIN new, {})
     /\ dels' = dels
     /\ hist' = Append(hist, h)
LocalInsN(r, cn, i, n) ==
  InsNWith(r, cn, i, n, [a |-> "ins", r |-> r, p |-> PathOf(S[r], cn, 4), i |-> i, n |-> n, k |-> "u"])
(* insert_with_attributes: the same abstract step (the marks it creates are not countable, see LocalFmt) *)
LocalInsA(r, cn, i, n, key, val) ==
  InsNWith(r, cn, i, n, [a |-> "insa", r |-> r, p |-> PathOf(S[r], cn, 4), i |-> i, n |-> n, key |-> key, v |-> val])

(* format n visible units from index i with key := val.  Formatting marks are not countable: the abstract lists  *)
(* (visible elements, their order, the indexes of later operations) do not change; the step only produces an    *)
(* update (possibly an empty one, as in the library when nothing changes).  What the marks mean is specified in *)
(* Rich.tla and checked on the recorded structure by the trace specification.                                   *)
LocalFmt(r, cn, i, n, key, val) ==
  LET R == S[r]
      v == Visible(E, R, ContKey(cn, ""))
  IN /\ n >= 1 /\ i + n <= Len(v)
     /\ E' = E /\ XD' = XD
     /\ Emit(r, R, {}, {})
     /\ dels' = dels
     /\ hist' = Append(hist, [a |-> "fmt", r |-> r, p |-> PathOf(R, cn, 4), i |-> i, n |-> n, key |-> key, v |-> val])

LocalDelN(r, cn, i, n) ==
  LET R  == S[r]
      c  == ContKey(cn, "")
      v  == Visible(E, R, c)
      xs == {v[j] : j \in (i + 1)..(i + n)}
      dd == DeadClosure(E, Units(R.lst), xs) \ R.dead
      R2 == ApplyAlg(E, R, {}, dd)
  IN /\ i + n <= Len(v)
     /\ E' = E /\ XD' = XD \cup xs
     /\ Emit(r, R2, {}, dd)
     /\ dels' = dels + 1
     /\ hist' = Append(hist, [a |-> "del", r |-> r, p |-> PathOf(R, cn, 4), i |-> i, n |-> n])
LocalDel(r, cn, i) == LocalDelN(r, cn, i, 1)

MapSet(r, cn, key, k) ==
  LET R   == S[r]
      c   == ContKey(cn, key)
      s   == Lst(R.lst, c)
      id  == NextId(r)
      kid == <<r, id[2] + 1>>
      o   == IF Len(s) = 0 THEN None ELSE s[Len(s)]
      new == IF k = "u" THEN (id :> Elem(o, None, cn, key, "any", ""))
             ELSE IF k = "A" THEN (id :> Elem(o, None, cn, key, "type", "array")) @@
                                  (kid :> Elem(None, None, <<"", id>>, "", "any", ""))
             ELSE (id :> Elem(o, None, cn, key, "type", "map")) @@
                  (kid :> Elem(None, None, <<"", id>>, "k1", "any", ""))
      E2  == AddElems(new)
      R1  == ApplyAlg(E2, R, DOMAIN new, {})
      dd  == R1.dead \ R.dead          \* the overridden entry (and its subtree) is part of the delete set
      R2  == [R1 EXCEPT !.ddel = @ \cup dd]
  IN /\ E' = E2 /\ XD' = XD
     /\ Emit(r, R2, DOMAIN new, dd)
     /\ dels' = dels
     /\ hist' = Append(hist, [a |-> "set", r |-> r, p |-> PathOf(R, cn, 4), key |-> key, k |-> k])

MapRem(r, cn, key) ==
  LET R  == S[r]
      c  == ContKey(cn, key)
      v  == Visible(E, R, c)
      dd == DeadClosure(E, Units(R.lst), {v[1]}) \ R.dead
      R2 == ApplyAlg(E, R, {}, dd)
  IN /\ v # <<>>
     /\ E' = E /\ XD' = XD \cup {v[1]}
     /\ Emit(r, R2, {}, dd)
     /\ dels' = dels + 1
     /\ hist' = Append(hist, [a |-> "rem", r |-> r, p |-> PathOf(R, cn, 4), key |-> key])

(* author t catches up with everything author f knows (causal delivery among authors) *)
SyncFrom(f, t) ==
  LET U   == known[f] \ known[t]
      ins == UNION {upd[i].ins : i \in U}
      del == UNION {upd[i].del : i \in U}
  IN /\ U # {}
     /\ Len(hist) > 0 /\ hist[Len(hist)].a # "sync"
     /\ S' = [S EXCEPT ![t] = ApplyAlg(E, S[t], ins, del)]
     /\ known' = [known EXCEPT ![t] = @ \cup U]
     /\ hist' = Append(hist, [a |-> "sync", f |-> f, t |-> t, how |-> "state"])
     /\ UNCHANGED <<E, XD, upd, got, ops, dels, phase>>

Deliver(i) ==
  /\ S' = [S EXCEPT ![Obs] = ApplyAlg(E, S[Obs], upd[i].ins, upd[i].del)]
  /\ got' = Append(got, i)
  /\ hist' = Append(hist, [a |-> "dlv", r |-> Obs, u |-> <<i>>])
  /\ UNCHANGED <<E, XD, upd, known, ops, dels, phase>>

DeliverMerged(us) ==
  LET ins == UNION {upd[us[i]].ins : i \in 1..Len(us)}
      del == UNION {upd[us[i]].del : i \in 1..Len(us)}
  IN /\ S' = [S EXCEPT ![Obs] = ApplyAlg(E, S[Obs], ins, del)]
     /\ got' = got \o us
     /\ hist' = Append(hist, [a |-> "dlv", r |-> Obs, u |-> us])
     /\ UNCHANGED <<E, XD, upd, known, ops, dels, phase>>

KeysOf(cn) == IF cn[2] = None THEN MapKeys ELSE {"k1"}
Kinds == IF Nest THEN {"u", "A", "M"} ELSE {"u"}
KindsAt(cn) == IF cn[2] = None /\ cn[1] # "t" THEN Kinds ELSE {"u"}

(* scripted author phase: the next local operation is the one the script names (root containers only);
   exchanges among authors and the whole observer phase stay free *)
ScriptStep ==
  LET st == Script[ops + 1] cn == <<st.c, None>> IN
    CASE st.a = "ins" /\ st.n > 1 -> /\ st.i <= Len(Visible(E, S[st.r], ContKey(cn, ""))) /\ LocalInsN(st.r, cn, st.i, st.n)
      [] st.a = "ins" /\ st.n <= 1 -> /\ st.i <= Len(Visible(E, S[st.r], ContKey(cn, ""))) /\ LocalIns(st.r, cn, st.i, st.k)
      [] st.a = "fmt" -> LocalFmt(st.r, cn, st.i, st.n, st.key, st.v)
      [] st.a = "insa" -> /\ st.i <= Len(Visible(E, S[st.r], ContKey(cn, ""))) /\ LocalInsA(st.r, cn, st.i, st.n, st.key, st.v)
      [] st.a = "del" -> LocalDelN(st.r, cn, st.i, st.n)
      [] st.a = "set" -> MapSet(st.r, cn, st.key, st.k)
      [] st.a = "rem" -> MapRem(st.r, cn, st.key)
      [] st.a = "nins" ->   \* insert into the nested array that is the i-th visible element of root st.c
           LET v == Visible(E, S[st.r], ContKey(cn, "")) IN
             /\ st.i < Len(v) /\ IsType(v[st.i + 1], "array") /\ LocalIns(st.r, <<"", v[st.i + 1]>>, 0, "u")
      [] st.a = "nset" ->   \* write key k3 of the nested map that is the i-th visible element of root st.c
           LET v == Visible(E, S[st.r], ContKey(cn, "")) IN
             /\ st.i < Len(v) /\ IsType(v[st.i + 1], "map") /\ MapSet(st.r, <<"", v[st.i + 1]>>, "k3", "u")
      [] OTHER -> FALSE

Next ==
  \/ /\ phase = "A" /\ ops < MaxOps /\ Script # <<>> /\ ops < Len(Script)
     /\ ScriptStep
  \/ /\ phase = "A" /\ ops < MaxOps /\ Script = <<>>
     /\ \E r \in Authors :
          \/ \E cn \in SeqConts(r) : \E i \in 0..Len(Visible(E, S[r], ContKey(cn, ""))) :
               \E k \in KindsAt(cn) : LocalIns(r, cn, i, k)
          \/ /\ dels < MaxDel
             /\ \E cn \in SeqConts(r) : \E i \in 0..(Len(Visible(E, S[r], ContKey(cn, ""))) - 1) : LocalDel(r, cn, i)
          \/ \E cn \in MapConts(r) : \E key \in KeysOf(cn) : \E k \in KindsAt(cn) : MapSet(r, cn, key, k)
          \/ /\ dels < MaxDel
             /\ \E cn \in MapConts(r) : \E key \in KeysOf(cn) : MapRem(r, cn, key)
  \/ /\ phase = "A"
     /\ \E f, t \in Authors : f # t /\ SyncFrom(f, t)
  \/ /\ phase = "A" /\ ops = MaxOps
     /\ phase' = "B"
     /\ UNCHANGED <<E, XD, S, upd, got, known, ops, dels, hist>>
  \/ /\ phase = "B"
     /\ \E i \in 1..Len(upd) :
          /\ (i \notin Range(got) \/ (Dups /\ Len(got) = Cardinality(Range(got))))
          /\ Deliver(i)
  \/ /\ phase = "B" /\ Merge
     /\ \E i, j \in (1..Len(upd)) \ Range(got) : i # j /\
          (DeliverMerged(<<i, j>>) \/ \E k \in (1..Len(upd)) \ (Range(got) \cup {i, j}) : DeliverMerged(<<i, j, k>>))

Init ==
  /\ E = [x \in {} |-> 0] /\ XD = {}
  /\ S = [r \in Reps |-> EmptyReplica]
  /\ upd = <<>> /\ got = <<>> /\ known = [r \in Authors |-> {}]
  /\ ops = 0 /\ dels = 0 /\ phase = "A" /\ hist = <<>>

Spec == Init /\ [][Next]_vars

Done == phase = "B" /\ Range(got) = 1..Len(upd)
PrintSchedules == Done => PrintT(<<"REPLAY", ToJson(hist)>>)

---------------------------------------------------------------------------
(* Invariants (design check)                                               *)
InvOnce      == \A r \in Reps : C04_Once(S[r])
InvPlaced    == \A r \in Reps : C04_Placed(E, S[r])
InvBetween   == \A r \in Reps : C04_Between(E, S[r])
InvDepClosed == \A r \in Reps : C01_DepClosed(E, S[r])
InvNothingLost == \A r \in Reps : C02_NothingLost(S[r]) /\ C02_DeletionsApplied(S[r])
InvPending   == \A r \in Reps : C02_PendingIffMissing(E, S[r]) /\ StashTight(S[r])
InvConverge  == \A a, b \in Reps : C01_Converge(E, XD, S[a], S[b])
InvPairOrder == \A a, b \in Reps : C04_PairOrder(S[a], S[b])
(* a causally closed delivered set leaves nothing stashed *)
InvClosed    == \A r \in Reps : (\A x \in S[r].dlv : Deps(E, x) \subseteq S[r].dlv) => S[r].pend = {}
=============================================================================
