CONSTANTS
  Kind = "x"
  MaxE = 2
  MaxUR = 3
  MaxF = 2
  UseStop = FALSE
  Flat = FALSE
  Pre = FALSE
SPECIFICATION Spec
INVARIANTS InvExact InvRoundTrip InvNearest InvBounded PrintSchedules
CHECK_DEADLOCK FALSE
