------------------------------- MODULE Sticky -------------------------------
(***************************************************************************)
(* C14 -- sticky indexes (constant-level operators over the Yata state).   *)
(*                                                                         *)
(* A sticky index is a record                                              *)
(*   [cont   : container key of the text / array / child list,             *)
(*    assoc  : "after" | "before",                                         *)
(*    anchor : Id of the anchoring element, or None when the index is      *)
(*             scoped to the container itself (start / end of the type),   *)
(*    par    : Id of the type element owning the container, None = root]   *)
(*                                                                         *)
(* Gaps of a container with visible elements v[1..n] are numbered 0..n     *)
(* (gap i lies between v[i] and v[i+1]).                                   *)
(*   "after"  : the index sticks to the element RIGHT of the gap -- it     *)
(*              designates the position directly before its anchor; at the *)
(*              end of the collection there is no such element and the     *)
(*              index designates the end of the collection;                *)
(*   "before" : the index sticks to the element LEFT of the gap -- it      *)
(*              designates the position directly after its anchor; at gap  *)
(*              0 it designates the start of the collection.               *)
(*                                                                         *)
(* Text elements are UTF-16 code units.  A character outside the BMP is    *)
(* two elements (Yata.tla, "Characters") but ONE place to stick to: gaps   *)
(* are character boundaries, and an anchor on either element of a          *)
(* surrogate pair stands for the character -- "after" designates the gap   *)
(* directly before its first element, "before" the gap directly after its  *)
(* last element.  Indexes and expected positions stay unit indexes.        *)
(***************************************************************************)
EXTENDS Yata

(* the element an index created at gap i of the visible list v is anchored to *)
AnchorFor(v, i, assoc) ==
  IF assoc = "after" THEN (IF i < Len(v) THEN v[i + 1] ELSE None)
  ELSE (IF i > 0 THEN v[i] ELSE None)

Sticky(cont, par, v, i, assoc) ==
  [cont |-> cont, assoc |-> assoc, anchor |-> AnchorFor(v, i, assoc), par |-> par]

(* a replica can resolve the index: it has integrated the anchoring element (which keeps its   *)
(* list position as a tombstone when deleted) and the container is reachable                   *)
KnowsAnchor(R, h) == h.anchor = None \/ IndexOf(Lst(R.lst, h.cont), h.anchor) # 0
Resolvable(E, R, h) == KnowsAnchor(R, h) /\ Reachable(E, R, h.par, 8)

(* number of visible elements (live and countable: formatting marks are listed but never     *)
(* visible) among the first p - 1 entries of list s                                          *)
VisibleBefore(E, R, s, p) == Cardinality({j \in 1..(p - 1) : s[j] \notin R.dead /\ Countable(E, s[j])})

(* the gap the index designates on replica R (meaningful when Resolvable)                      *)
(*   live anchor : directly before it ("after") / directly after it ("before")                 *)
(*   dead anchor : the gap where it used to be = after all visible elements that precede its   *)
(*                 tombstone and before all that follow it                                     *)
(*   no anchor   : end ("after") / start ("before") of the collection                          *)
ExpectedIndex(E, R, h) ==
  IF h.anchor = None
  THEN (IF h.assoc = "after" THEN Len(Visible(E, R, h.cont)) ELSE 0)
  ELSE LET s == Lst(R.lst, h.cont)
           a == IF h.assoc = "after" THEN CharFirst(E, h.anchor) ELSE CharLast(E, h.anchor)
           p == IndexOf(s, a)
           n == VisibleBefore(E, R, s, p)
       IN IF a \in R.dead \/ ~Countable(E, a) \/ h.assoc = "after" THEN n ELSE n + 1

(* side of the designated gap on which a listed element x # anchor lies: TRUE = left *)
LeftOfGap(R, h, x) ==
  LET s == Lst(R.lst, h.cont) IN IndexOf(s, x) < IndexOf(s, h.anchor)

---------------------------------------------------------------------------
(* Property predicates.                                                    *)

(* creation: the anchor recorded from the implementation realises gap i on the creating       *)
(* replica: an element of that container next to the gap on the side the association names,   *)
(* or the container itself exactly at its end ("after") / start ("before")                    *)
C14_AnchorRight(E, R, h, i) ==
  IF h.anchor = None
  THEN (IF h.assoc = "after" THEN i = Len(Visible(E, R, h.cont)) ELSE i = 0)
  ELSE /\ h.anchor \in DOMAIN E
       /\ E[h.anchor].cont = h.cont
       /\ KnowsAnchor(R, h)
       /\ ExpectedIndex(E, R, h) = i

(* implementation-level rule (drift when it differs but C14_AnchorRight holds, e.g. an anchor  *)
(* on a tombstone inside the gap)                                                             *)
AnchorByRule(E, R, h, i) == CharFirst(E, h.anchor) = CharFirst(E, AnchorFor(Visible(E, R, h.cont), i, h.assoc))
(* implementation-level: which element of a surrogate pair carries a left-associated index.  The element next to  *)
(* the gap is the pair's LAST one (AnchorFor); a replica counting in another offset unit -- or a Yjs peer -- that  *)
(* resolves "directly after the anchoring element" lands inside the pair when the FIRST one was stored.           *)
AnchorOnFirstHalf(E, h) == h.anchor # None /\ h.assoc = "before" /\ IsHighHalf(E, h.anchor)

(* Every gap 0..n of a collection with n visible elements can be given a sticky index, with    *)
(* one exception: IndexedSequence::sticky_index(n, Assoc::After) -- no element right of the    *)
(* gap -- answers None on the code under test (the end of a collection is reached through      *)
(* StickyIndex::from_type(.., Assoc::After) instead).  The property speaks about indexes that  *)
(* were created, so the refusal is not a violation (weaker reading, DESIGN section 5); it is   *)
(* reported as drift.  When the API does create the index it must be the container-scoped      *)
(* "end" index (C14_AnchorRight).  Set AfterEndDemanded to TRUE to demand creation.            *)
AfterEndDemanded == FALSE
C14_Created(n, i, assoc, created) ==
  (i \in 0..n /\ (AfterEndDemanded \/ ~(assoc = "after" /\ i = n))) => created

(* resolution on a replica that knows the anchor is exact *)
C14_ResolveExact(E, R, h, found, cont, idx) ==
  Resolvable(E, R, h) => (found /\ cont = h.cont /\ idx = ExpectedIndex(E, R, h))

(* two replicas that both know the anchor see the same elements on the same side of the gap *)
C14_SameGap(A, B, h) ==
  (h.anchor # None /\ KnowsAnchor(A, h) /\ KnowsAnchor(B, h)) =>
     \A x \in (Range(Lst(A.lst, h.cont)) \cap Range(Lst(B.lst, h.cont))) \ {h.anchor} :
        LeftOfGap(A, h, x) = LeftOfGap(B, h, x)
=============================================================================
