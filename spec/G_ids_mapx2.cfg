SPECIFICATION Spec
INVARIANTS PrintSchedules
CHECK_DEADLOCK FALSE
CONSTANTS
  Kind = "map"
  Clients = {1, 2}
  U = 3
  AttrLists <- AttrsMapX
  EmptyAt = {1}
  MaxOps = 2
  Pairs = FALSE
  FiMax = 0
