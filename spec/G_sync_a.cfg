CONSTANTS
  Third = {}
  Kinds = {"insf", "inse", "set", "del"}
  MaxEd = 2
  MaxEd3 = 0
  MaxTotal = 2
  MaxPre = 1
  MaxQ = 0
SPECIFICATION Spec
INVARIANTS PrintSchedules
CHECK_DEADLOCK FALSE
