--------------------------- MODULE Trace_SeqApi ---------------------------
(***************************************************************************)
(* V stage for SeqApi: every recorded public call is re-executed on the    *)
(* abstract document value; every read accessor of every reachable shared  *)
(* type recorded after the call (inside the open transaction and again     *)
(* after commit) must be the projection of that value.                     *)
(***************************************************************************)
EXTENDS SeqApi, Json, IOUtils

Rec == ndJsonDeserialize(IOEnv.TRACE)

VARIABLES l, ln0, bid, unit, D, W, failed, viol, drift, cnt
vars == <<l, ln0, bid, unit, D, W, failed, viol, drift, cnt>>

Ev == Rec[l]
Roots == {"t", "a", "m", "x"}
InitDoc == ("t" :> Container("text", "")) @@ ("a" :> Container("array", "")) @@
           ("m" :> Container("map", "")) @@ ("x" :> Container("xmlfrag", ""))

PairSet(a) == {<<a[i][1], a[i][2]>> : i \in 1..Len(a)}
ToCell(j) == Cell(j.tag, j.w8, j.w16, {}, j.kind, j.ref)
ToCells(js) == [i \in 1..Len(js) |-> ToCell(js[i])]
ToMap(ps) == [k \in {ps[i][1] : i \in 1..Len(ps)} |-> ToCell(ps[CHOOSE i \in 1..Len(ps) : ps[i][1] = k][2])]
ToContainer(n) == [kind |-> n.kind, seq |-> ToCells(n.seq), map |-> ToMap(n.map), name |-> n.name]
NestedOf(ev) == [t \in {ev.nested[i].tok : i \in 1..Len(ev.nested)} |->
                   ToContainer(ev.nested[CHOOSE i \in 1..Len(ev.nested) : ev.nested[i].tok = t])]
NormOps(os) == [j \in 1..Len(os) |-> [op |-> os[j].op, n |-> os[j].n, cells |-> ToCells(os[j].cells),
                                      hasattrs |-> os[j].hasattrs, attrs |-> PairSet(os[j].attrs)]]
Norm(c) == [op |-> c.op, off |-> c.off, len |-> c.len, i |-> c.i, n |-> c.n, key |-> c.key, kind |-> c.kind,
            mode |-> c.mode, hasattrs |-> c.hasattrs, attrs |-> PairSet(c.attrs), v |-> c.v, ops |-> NormOps(c.ops)]

(* widths of every element ever created (tag -> cell), to measure candidates read from the dump *)
AllCells(ev) ==
  LET top == {ToCell(ev.new[i]) : i \in 1..Len(ev.new)}
      nst == UNION {{ToCell(ev.nested[i].seq[j]) : j \in 1..Len(ev.nested[i].seq)} : i \in 1..Len(ev.nested)}
      dlt == UNION {{ToCell(ev.ncall.ops[i].cells[j]) : j \in 1..Len(ev.ncall.ops[i].cells)} : i \in 1..Len(ev.ncall.ops)}
  IN top \cup nst \cup dlt
ExtendW(ev) == LET cs == AllCells(ev) IN
  [t \in DOMAIN W \cup {c.tag : c \in cs} |-> IF t \in DOMAIN W THEN W[t] ELSE CHOOSE c \in cs : c.tag = t]

(* navigation of the recorded path in the abstract value *)
RECURSIVE NavTo(_, _, _)
NavTo(DD, tok, nav) ==
  IF nav = <<>> THEN tok
  ELSE IF tok \notin DOMAIN DD THEN "?"
  ELSE LET st == Head(nav) v == DD[tok] IN
       IF st[1] > 0
       THEN (IF st[1] <= Len(v.seq) /\ v.seq[st[1]].kind = "type" THEN NavTo(DD, v.seq[st[1]].ref, Tail(nav)) ELSE "?")
       ELSE (IF st[2] \in DOMAIN v.map /\ v.map[st[2]].kind = "type" THEN NavTo(DD, v.map[st[2]].ref, Tail(nav)) ELSE "?")

---------------------------------------------------------------------------
(* C17: the accessors of one container tell one story.  The story is read  *)
(* from a primary accessor (diff / iter / children) and every other        *)
(* accessor must be its projection.                                        *)
Flatten(WW, chunks) ==
  LET RECURSIVE F(_, _)
      F(i, acc) == IF i > Len(chunks) THEN acc
                   ELSE F(i + 1, acc \o [j \in 1..Len(chunks[i].tags) |->
                            LET t == chunks[i].tags[j] IN
                            [tag |-> t, w8 |-> IF t \in DOMAIN WW THEN WW[t].w8 ELSE 1,
                             w16 |-> IF t \in DOMAIN WW THEN WW[t].w16 ELSE 1,
                             attrs |-> PairSet(chunks[i].attrs),
                             kind |-> IF chunks[i].e THEN "embed" ELSE "ch", ref |-> ""]])
  IN F(1, <<>>)
(* chunks are non-empty and an embed is a chunk of its own (adjacent chunks with equal attributes need
   not be merged: left-over formatting marks may split a run -- not demanded by the property) *)
ChunksCanonical(chunks) ==
  \A i \in 1..Len(chunks) : Len(chunks[i].tags) > 0 /\ (chunks[i].e => Len(chunks[i].tags) = 1)
TextConsistent(WW, d) ==
  LET cand == Container("text", "") IN
  LET c == [cand EXCEPT !.seq = Flatten(WW, d.diff)] IN
    /\ d.len = ExpectLen(c, unit)
    /\ d.str = ExpectStr(c)
    /\ ChunksCanonical(d.diff)
SeqConsistent(len, items, get) ==
  /\ len = Len(items)
  /\ Len(get) = Len(items) + 2
  /\ \A i \in 1..Len(get) : get[i] = (IF i <= Len(items) THEN items[i] ELSE "")
ArrayConsistent(d) == SeqConsistent(d.len, d.iter, d.get) /\ d.json = d.iter /\ d.jnest
MapConsistent(d) ==
  LET ps == PairSet(d.iter) ks == {p[1] : p \in ps} IN
    /\ d.len = Len(d.iter) /\ Cardinality(ks) = Len(d.iter)
    /\ {d.keys[i] : i \in 1..Len(d.keys)} = ks /\ Len(d.keys) = d.len
    /\ Len(d.values) = d.len /\ {d.values[i] : i \in 1..Len(d.values)} = {p[2] : p \in ps}
    /\ \A i \in 1..Len(d.has) : d.has[i][2] = (d.has[i][1] \in ks)
    /\ \A i \in 1..Len(d.get) : d.get[i][2] = (IF d.get[i][1] \in ks THEN (CHOOSE p \in ps : p[1] = d.get[i][1])[2] ELSE "")
    /\ PairSet(d.json) = ps /\ Len(d.json) = d.len /\ d.jnest
RECURSIVE SuccOf(_, _, _)
SuccOf(dump, tok, fuel) ==
  IF fuel = 0 \/ tok \notin DOMAIN dump \/ dump[tok].kind \notin {"xmlfrag", "xmlelem"} THEN <<>>
  ELSE LET kids == dump[tok].children
           RECURSIVE G(_, _)
           G(i, acc) == IF i > Len(kids) THEN acc
                        ELSE G(i + 1, acc \o <<kids[i]>> \o SuccOf(dump, kids[i], fuel - 1))
       IN G(1, <<>>)
Rev(s) == [i \in 1..Len(s) |-> s[Len(s) + 1 - i]]
XmlConsistent(dump, tok) ==
  LET d == dump[tok] kids == d.children IN
    /\ SeqConsistent(d.len, kids, d.get)
    /\ d.first = (IF Len(kids) > 0 THEN kids[1] ELSE "")
    /\ Len(d.sibs) = Len(kids)
    /\ \A i \in 1..Len(kids) :
         /\ d.sibs[i].parent = tok
         /\ d.sibs[i].next = SubSeq(kids, i + 1, Len(kids))
         /\ d.sibs[i].prev = Rev(SubSeq(kids, 1, i - 1))
    /\ d.succ = SuccOf(dump, tok, 6)
Consistent(WW, dump, tok) ==
  LET d == dump[tok] IN
  CASE d.kind \in {"text", "xmltext"} -> TextConsistent(WW, d)
    [] d.kind = "array" -> ArrayConsistent(d)
    [] d.kind = "map" -> MapConsistent(d)
    [] OTHER -> XmlConsistent(dump, tok)

(* C03: the story equals the abstract value *)
StripW(s) == [i \in 1..Len(s) |-> [tag |-> s[i].tag, attrs |-> s[i].attrs, e |-> s[i].kind # "ch"]]
ValueExact(WW, v, d) ==
  /\ d.kind = v.kind
  /\ CASE v.kind \in {"text", "xmltext"} ->
            StripW(Flatten(WW, d.diff)) = StripW(SelectSeq(v.seq, LAMBDA x : TRUE))
       [] v.kind = "array" -> d.iter = Tags(v.seq)
       [] v.kind = "map" -> PairSet(d.iter) = {<<k, v.map[k].tag>> : k \in DOMAIN v.map}
       [] OTHER -> /\ d.children = Tags(v.seq)
                   /\ d.name = v.name
                   /\ PairSet(d.attrs) = {<<k, v.map[k].tag>> : k \in DOMAIN v.map}

Failing(chk) == {chk[i][1] : i \in {j \in 1..Len(chk) : ~chk[j][2]}}
Record(bad, dr) ==
  /\ viol' = viol \cup {<<bid, p, l - ln0>> : p \in bad}
  /\ failed' = (failed \/ bad # {} \/ dr # {})
  /\ drift' = drift \cup {<<bid, d, l - ln0>> : d \in dr}

---------------------------------------------------------------------------
Reset ==
  /\ Ev.k = "reset"
  /\ bid' = Ev.bid /\ ln0' = l /\ unit' = Ev.cfg.offset
  /\ D' = InitDoc /\ W' = NoMap /\ failed' = FALSE
  /\ cnt' = [cnt EXCEPT !.beh = @ + 1]
  /\ UNCHANGED <<viol, drift>>

Skip ==
  /\ Ev.k # "reset" /\ failed
  /\ UNCHANGED <<ln0, bid, unit, D, W, failed, viol, drift, cnt>>

Call ==
  /\ Ev.k = "call" /\ ~failed
  /\ LET c == Norm(Ev.ncall)
         tok == NavTo(D, Ev.ncall.root, Ev.ncall.nav)
         cells == ToCells(Ev.new)
         nc == NestedOf(Ev)
         valid == tok # "?" /\ CallValid(D, tok, c, unit) /\
                  (c.op \in {"tins", "tpush", "temb", "ains", "apushb", "apushf", "arange", "amix", "mset", "mupd", "minit", "xins", "xpushb", "xpushf"} => Len(cells) > 0)
         D2 == IF valid THEN ApplyCall(D, tok, c, cells, nc, unit) ELSE D
         W2 == ExtendW(Ev)
         reach == ReachFrom(D2, Roots, 12)
         dump == Ev.dump
         retOk == CASE c.op = "mupd" -> Ev.ret.updated = ExpectUpdated(D, tok, c, cells)
                    [] c.op = "mrem" -> Ev.ret.old = ExpectRemoved(D, tok, c)
                    [] c.op = "minit" -> (InitExisting(D, D[tok].map, c.key, c.kind) => Ev.ret.tok = D[tok].map[c.key].ref)
                    [] OTHER -> TRUE
         chk == IF ~valid THEN <<>> ELSE
                << <<"C03_NoFailure", Ev.outcome = "ok">>,
                   <<"C03_TargetResolved", Ev.tok = tok>>,
                   <<"C03_ValueExact", \A t \in reach : t \in DOMAIN dump /\ ValueExact(W2, D2[t], dump[t])>>,
                   <<"C03_NoPhantom", DOMAIN dump \subseteq reach>>,
                   <<"C03_Return", retOk>>,
                   <<"C03_CommitStable", ~Ev.committed \/ Ev.after = dump>>,
                   <<"C17_ReadsAgree", \A t \in DOMAIN dump : Consistent(W2, dump, t)>> >>
     IN /\ Record(Failing(chk), IF valid THEN {} ELSE {"invalid-call"})
        /\ D' = [t \in reach \cap DOMAIN D2 |-> D2[t]]
        /\ W' = W2
        /\ cnt' = [cnt EXCEPT !.ev = @ + 1, !.checks = @ + Len(chk)]
  /\ UNCHANGED <<ln0, bid, unit>>

TInit == /\ l = 1 /\ ln0 = 0 /\ bid = "" /\ unit = "utf16" /\ D = InitDoc /\ W = NoMap /\ failed = FALSE
         /\ viol = {} /\ drift = {} /\ cnt = [beh |-> 0, ev |-> 0, checks |-> 0]
TNext == /\ l <= Len(Rec) /\ l' = l + 1 /\ (Reset \/ Skip \/ Call)
TSpec == TInit /\ [][TNext]_vars
Verdict == l = Len(Rec) + 1 =>
             PrintT(<<"VERDICT", ToJson([viol |-> viol, drift |-> drift, cnt |-> cnt, lines |-> Len(Rec)])>>)
=============================================================================
