SPECIFICATION Spec
INVARIANTS PrintSchedules
CHECK_DEADLOCK FALSE
CONSTANTS
  MaxOps = 5
  MaxLen = 2
