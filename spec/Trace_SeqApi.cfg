SPECIFICATION TSpec
INVARIANT Verdict
CHECK_DEADLOCK FALSE
