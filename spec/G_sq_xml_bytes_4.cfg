CONSTANTS
  Family = "xml"
  Unit = "bytes"
  MaxOps = 4
  Shape <- NoShape
SPECIFICATION Spec
INVARIANTS InvWellFormed InvUniqueTags PrintSchedules
CHECK_DEADLOCK FALSE
