----------------------------- MODULE SyncProto -----------------------------
(***************************************************************************)
(* The default y-sync protocol between two peers (yrs/src/sync/protocol.rs *)
(* Protocol / DefaultProtocol / Message / SyncMessage / MessageReader), C18.*)
(* Constant-level module: operators only, shared by MC_SyncProto (design   *)
(* check + schedule generation), MC_SyncCodec (message shapes) and         *)
(* Trace_SyncProto (validation of traces recorded from the real protocol). *)
(*                                                                         *)
(* A document is abstracted to two sets: the element units delivered to    *)
(* the replica (integrated or stashed) and the deletions delivered to it.  *)
(* Applying an update is set union; the YATA order is not needed here (it  *)
(* is the subject of the Yata module).  An element table E gives every     *)
(* unit <<client, clock>> its dependencies, so that "integrated" is the    *)
(* largest dependency-closed part of the delivered set and the state       *)
(* vector is the contiguous prefix of the integrated part per client.      *)
(***************************************************************************)
EXTENDS Naturals, FiniteSets, Sequences, TLC

EmptyDoc == [D |-> {}, X |-> {}]

(* state vectors are sets of pairs <<client, next expected clock>>, clock > 0 *)
Covered(sv, x) == \E s \in sv : s[1] = x[1] /\ x[2] < s[2]
CoveredSet(sv, S) == {x \in S : Covered(sv, x)}
RECURSIVE FirstGap(_, _, _)
FirstGap(H, c, k) == IF <<c, k>> \in H THEN FirstGap(H, c, k + 1) ELSE k
SVOf(H) == {<<c, FirstGap(H, c, 0)>> : c \in {x[1] : x \in H}} \ {<<c, 0>> : c \in {x[1] : x \in H}}

(* largest dependency-closed subset of a delivered set *)
RECURSIVE Closure(_, _)
Closure(E, D) ==
  LET bad == {x \in D : ~(E[x].deps \subseteq D)}
  IN IF bad = {} THEN D ELSE Closure(E, D \ bad)
DepClosed(E, D) == \A x \in D : E[x].deps \subseteq D

---------------------------------------------------------------------------
(* Messages.  t = step1 [sv] | step2 [ins, del] | update [ins, del] |      *)
(* aw [entries] | query | auth [reason] | custom [tag, data]               *)

(* handle_sync_step2 / handle_update: apply = union *)
ApplyPayload(doc, m) == [D |-> doc.D \cup m.ins, X |-> doc.X \cup m.del]

(* handle_sync_step1: the answer must carry every delivered unit that the   *)
(* asker's state vector does not cover (stashed units included:            *)
(* encode_state_as_update) and the complete set of deletions; it may carry  *)
(* more (units the asker already has), never something the responder does   *)
(* not hold.                                                                *)
MinStep2(doc, sv) == [t |-> "step2", ins |-> doc.D \ CoveredSet(sv, doc.D), del |-> doc.X]
C18_Step2Complete(doc, sv, m) ==
  /\ (doc.D \ CoveredSet(sv, doc.D)) \subseteq m.ins
  /\ doc.X \subseteq m.del
C18_Step2Sound(doc, m) == m.ins \subseteq doc.D

(* Protocol::start sends SyncStep1 with the state vector of the integrated  *)
(* part of the document                                                     *)
C18_Step1Exact(integrated, m) == m.sv = SVOf(integrated)

(* both directions drained and both peers connected: equal documents.      *)
(* dead1 / dead2 = the tombstones in force at the two peers: besides the     *)
(* delivered deletions a replica derives deletions itself (overridden map   *)
(* entries), so deletions are compared as delivered-or-in-force.            *)
C18_QuiescentEqual(d1, d2, dead1, dead2) ==
  /\ d1.D = d2.D
  /\ dead1 = dead2
  /\ d1.X \cup dead1 = d2.X \cup dead2

---------------------------------------------------------------------------
(* Wire form (abstract): the message tag is a lib0 varuint, followed by the *)
(* body.  Only the tag is spelled out in bytes: it decides how the rest is  *)
(* read.                                                                    *)
VarBytes(n) == IF n < 128 THEN <<n>> ELSE <<128 + (n % 128), n \div 128>>
ReadVar(w) == IF w[1] < 128 THEN [v |-> w[1], rest |-> Tail(w)]
              ELSE [v |-> (w[1] - 128) + 128 * w[2], rest |-> Tail(Tail(w))]

TagOf(m) == CASE m.t \in {"step1", "step2", "update"} -> 0
              [] m.t = "aw" -> 1
              [] m.t = "auth" -> 2
              [] m.t = "query" -> 3
              [] m.t = "custom" -> m.tag
SubTag(m) == CASE m.t = "step1" -> 0 [] m.t = "step2" -> 1 [] m.t = "update" -> 2

Wire(m) ==
  VarBytes(TagOf(m)) \o
  (CASE m.t = "step1" -> <<SubTag(m), m.sv>>
     [] m.t \in {"step2", "update"} -> <<SubTag(m), m.ins, m.del>>
     [] m.t = "aw" -> <<m.entries>>
     [] m.t = "auth" -> IF m.denied THEN <<0, m.reason>> ELSE <<1>>
     [] m.t = "query" -> <<>>
     [] m.t = "custom" -> <<m.data>>)

Unwire(w) ==
  LET h == ReadVar(w)
      b == h.rest
  IN CASE h.v = 0 /\ b[1] = 0 -> [t |-> "step1", sv |-> b[2]]
       [] h.v = 0 /\ b[1] = 1 -> [t |-> "step2", ins |-> b[2], del |-> b[3]]
       [] h.v = 0 /\ b[1] = 2 -> [t |-> "update", ins |-> b[2], del |-> b[3]]
       [] h.v = 1 -> [t |-> "aw", entries |-> b[1]]
       [] h.v = 2 -> IF b[1] = 0 THEN [t |-> "auth", denied |-> TRUE, reason |-> b[2]]
                     ELSE [t |-> "auth", denied |-> FALSE]
       [] h.v = 3 -> [t |-> "query"]
       [] OTHER -> [t |-> "custom", tag |-> h.v, data |-> b[1]]

(* a custom message must not reuse a tag of the protocol itself *)
LegalMessage(m) == m.t = "custom" => m.tag \in 4..255
C18_MessageRoundTrip(m) == Unwire(Wire(m)) = m
=============================================================================
