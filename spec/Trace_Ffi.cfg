SPECIFICATION TSpecF
INVARIANT VerdictF
CHECK_DEADLOCK FALSE
