CONSTANTS
  Third = {}
  Kinds = {"inse", "del"}
  MaxEd = 1
  MaxEd3 = 0
  MaxTotal = 2
  MaxPre = 1
  MaxQ = 2
SPECIFICATION Spec
INVARIANTS InvQuiescentEqual InvSound InvOwn InvNothingStashed InvRoundTrip
CHECK_DEADLOCK FALSE
VIEW view
