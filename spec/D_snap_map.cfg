CONSTANTS
  Authors = {1, 2}
  Obs = 8
  MaxOps = 3
  SeqRoots = {}
  MapKeys = {"k1", "k2"}
  Nest = FALSE
  MaxDel = 2
  Merge = FALSE
  Script <- NoScript
  Dups = FALSE
  MaxSnaps = 2
SPECIFICATION SpecS
INVARIANTS InvRepresentable InvRestore InvRestoreStruct InvStableBelow
CONSTRAINT OnlyA
CHECK_DEADLOCK FALSE
VIEW viewS
