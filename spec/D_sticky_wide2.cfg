CONSTANTS
  Authors = {1, 2}
  Obs = 8
  MaxOps = 2
  SeqRoots = {"t"}
  MapKeys = {}
  Nest = FALSE
  MaxDel = 1
  Merge = FALSE
  Script <- NoScript
  Dups = FALSE
  MaxSticky = 1
SPECIFICATION SpecW
INVARIANTS InvPairAdjacent InvWholeChars InvGapAtCreationW InvOnBoundary InvGapMeaningW InvSameGap InvStickyConverge InvWidths InvOnce InvBetween InvConverge InvPairOrder
PROPERTY StickyStable
CHECK_DEADLOCK FALSE
VIEW viewS
