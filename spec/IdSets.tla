------------------------------ MODULE IdSets ------------------------------
(***************************************************************************)
(* C16 -- id sets and attributed id maps as mathematical objects.          *)
(*                                                                         *)
(* A point is <<client, clock>>.  An abstract VALUE is a function from a   *)
(* finite set of points to a set of attributes:                            *)
(*   IdMap  : point |-> non-empty set of attributes                        *)
(*   IdSet  : point |-> {}      (a plain set of points; DOMAIN v is "the   *)
(*            set", the attribute component is constantly empty)           *)
(* Every operation of the library is given its set-theoretic meaning.      *)
(* The interval algorithms of yrs/src/ids.rs are deliberately NOT          *)
(* transcribed: nothing below mentions ranges except the functions that    *)
(* read a recorded concrete representation (a list of [lo,hi) ranges per   *)
(* client) back into a value, and the canonical-form predicate.            *)
(***************************************************************************)
EXTENDS Naturals, Integers, Sequences, FiniteSets, SequencesExt

---------------------------------------------------------------------------
(* abstract values and operations *)

EmptyVal == <<>>                                   \* the function with empty domain
Pts(v) == DOMAIN v
RangePts(c, lo, hi) == {<<c, k>> : k \in lo..(hi - 1)}     \* [lo,hi) ; empty when hi <= lo
At(v, p) == IF p \in DOMAIN v THEN v[p] ELSE {}
RestrictTo(v, D) == [p \in D |-> v[p]]

(* insert(range, attrs): the points of the range are present afterwards and carry the given
   attributes in addition to those they had (IdSet: attrs = {}) *)
Ins(v, c, lo, hi, A) ==
  LET R == RangePts(c, lo, hi)
  IN [p \in DOMAIN v \cup R |-> IF p \in R THEN At(v, p) \cup A ELSE v[p]]
(* remove_range / remove *)
Rem(v, c, lo, hi) == RestrictTo(v, DOMAIN v \ RangePts(c, lo, hi))
(* merge / merge_with / merge_many / insert_range: union, attributes united point-wise *)
Merge(v, w) == [p \in DOMAIN v \cup DOMAIN w |-> At(v, p) \cup At(w, p)]
(* intersect: points of both, attributes of both (ids.rs: "values are combined via Merge") *)
Intersect(v, w) == [p \in DOMAIN v \cap DOMAIN w |-> v[p] \cup w[p]]
(* diff (IdSet\IdSet, IdMap\IdSet, IdMap\IdMap): only the points of the subtrahend matter *)
Diff(v, w) == RestrictTo(v, DOMAIN v \ DOMAIN w)
SubsetOf(v, w) == DOMAIN v \subseteq DOMAIN w
HasPoint(v, p) == p \in DOMAIN v                 \* contains(id)
IsEmpty(v) == DOMAIN v = {}
(* conversions *)
AsIdSet(v) == [p \in DOMAIN v |-> {}]              \* IdMap -> IdSet (as_id_set, From<IdMap>)
FromSet(s, A) == [p \in DOMAIN s |-> A]            \* IdSet -> IdMap (from_set)
Filter(v, a) == RestrictTo(v, {p \in DOMAIN v : a \in v[p]})   \* filter(|attrs| attrs contains a)
ClientsOf(v) == {p[1] : p \in DOMAIN v}
OnClient(v, c) == RestrictTo(v, {p \in DOMAIN v : p[1] = c})
(* from_iter: items = sequence of [c, rs] with distinct clients, rs = sequence of <<lo, hi>> *)
FromIter(items) ==
  LET P == UNION {UNION {RangePts(items[i].c, items[i].rs[j][1], items[i].rs[j][2]) : j \in DOMAIN items[i].rs}
                  : i \in DOMAIN items}
  IN [p \in P |-> {}]
(* attributions(client, lo, hi): the attribute set of every clock of [lo,hi) ({} where absent) *)
AttrAt(v, c, k) == At(v, <<c, k>>)

(* one construction step as recorded in programs (G) and traces (V):
   [a |-> "ins"|"rem", c, lo, hi, at (sequence of attribute names)] or [a |-> "fi", items] *)
\* ToSet(seq) = set of its elements (SequencesExt)
ApplyOp(v, op) ==
  IF op.a = "ins" THEN Ins(v, op.c, op.lo, op.hi, ToSet(op.at))
  ELSE IF op.a = "rem" THEN Rem(v, op.c, op.lo, op.hi)
  ELSE IF op.a = "fi" THEN FromIter(op.items)               \* IdSet::from_iter: a fresh set
  ELSE v
RECURSIVE ApplyProg(_, _)
ApplyProg(v, prog) == IF prog = <<>> THEN v ELSE ApplyProg(ApplyOp(v, Head(prog)), Tail(prog))

(* binary operations by name (R := op(A, B)) *)
BinOp(name, a, b, arg) ==
  CASE name \in {"merge", "mergew", "mergemany"} -> Merge(a, b)
    [] name \in {"diff", "diffw", "diffmap"} -> Diff(a, b)
    [] name = "diffset" -> Diff(a, AsIdSet(b))
    [] name \in {"isect", "isectw"} -> Intersect(a, b)
    [] name = "insr" -> Merge(a, OnClient(b, arg))          \* insert_range(client, B's ranges of client)
    [] name \in {"asidset", "intoidset"} -> AsIdSet(a)
    [] name = "fromset" -> FromSet(AsIdSet(a), ToSet(arg))
    [] name = "filter" -> Filter(a, arg)
    [] name = "fromiter" -> AsIdSet(a)                      \* from_iter(a.iter()) rebuilds the same set
    [] name = "clone" -> a
    [] OTHER -> a

---------------------------------------------------------------------------
(* concrete representations: what iter() lists.
   rep = sequence of [c |-> client, r |-> sequence of [lo, hi, at]]; `at` is the attribute list
   (a sequence as stored) in recorded data; AbsRep turns it into a set.                        *)

AbsRep(rep) ==
  [i \in DOMAIN rep |->
     [c |-> rep[i].c,
      r |-> [j \in DOMAIN rep[i].r |-> [lo |-> rep[i].r[j].lo, hi |-> rep[i].r[j].hi, at |-> ToSet(rep[i].r[j].at)]]]]

(* value denoted by an abstract representation (overlaps, if any, unite) *)
ARepPts(ar) == UNION {UNION {RangePts(ar[i].c, ar[i].r[j].lo, ar[i].r[j].hi) : j \in DOMAIN ar[i].r} : i \in DOMAIN ar}
Covering(ar, p) ==   \* the attribute sets of all entries that cover point p
  UNION {{ar[i].r[j].at : j \in {j2 \in DOMAIN ar[i].r : /\ ar[i].c = p[1]
                                                        /\ ar[i].r[j2].lo <= p[2] /\ p[2] < ar[i].r[j2].hi}}
         : i \in DOMAIN ar}
ARepVal(ar) == [p \in ARepPts(ar) |-> UNION Covering(ar, p)]
RepVal(rep) == ARepVal(AbsRep(rep))

(* canonical form: no client twice, no empty client entry, per client sorted, disjoint, non-empty
   ranges, adjacent ranges with equal attributes coalesced *)
ACanonical(ar) ==
  /\ \A i, k \in DOMAIN ar : i # k => ar[i].c # ar[k].c
  /\ \A i \in DOMAIN ar :
       LET r == ar[i].r
       IN /\ Len(r) > 0
          /\ \A j \in DOMAIN r : r[j].lo < r[j].hi
          /\ \A j \in 1..(Len(r) - 1) :
               /\ r[j].hi <= r[j + 1].lo
               /\ (r[j].hi = r[j + 1].lo => r[j].at # r[j + 1].at)
NoDupAttrs(rep) ==
  \A i \in DOMAIN rep : \A j \in DOMAIN rep[i].r :
     Cardinality(ToSet(rep[i].r[j].at)) = Len(rep[i].r[j].at)

(* the canonical representation of a value (unique; clients ascending) -- used by the design check
   to show that C16_Points /\ C16_Canonical is satisfiable for every value and pins one list *)
Clocks(v, c) == {p[2] : p \in {q \in DOMAIN v : q[1] = c}}
MaxOf(S) == CHOOSE x \in S : \A y \in S : y <= x
IsStart(v, c, k) == <<c, k>> \in DOMAIN v /\ (<<c, k - 1>> \notin DOMAIN v \/ v[<<c, k - 1>>] # v[<<c, k>>])
RunEnd(v, c, k) ==
  CHOOSE e \in (k + 1)..(MaxOf(Clocks(v, c)) + 1) :
     /\ \A j \in k..(e - 1) : <<c, j>> \in DOMAIN v /\ v[<<c, j>>] = v[<<c, k>>]
     /\ (<<c, e>> \notin DOMAIN v \/ v[<<c, e>>] # v[<<c, k>>])
CanonRanges(v, c) ==
  SetToSortSeq({[lo |-> k, hi |-> RunEnd(v, c, k), at |-> v[<<c, k>>]] : k \in {x \in Clocks(v, c) : IsStart(v, c, x)}},
               LAMBDA x, y : x.lo < y.lo)
Canon(v) ==
  LET cs == SetToSortSeq(ClientsOf(v), LAMBDA x, y : x < y)
  IN [i \in 1..Len(cs) |-> [c |-> cs[i], r |-> CanonRanges(v, cs[i])]]

---------------------------------------------------------------------------
(* C16 predicates over recorded observations *)

(* the recorded range list denotes exactly the set-theoretic result *)
C16_Points(rep, v) == RepVal(rep) = v
C16_Canonical(rep) == ACanonical(AbsRep(rep))
(* ... and no attribute is listed twice for a range (an attribute SET per point) *)
C16_CanonicalAttrs(rep) == NoDupAttrs(rep)
(* two representations of the same value: same range lists (attribute lists compared as sets) *)
C16_EqualRepr(rep1, rep2) == AbsRep(rep1) = AbsRep(rep2)
(* ... and the same bytes *)
C16_EqualEncoding(o1, o2) == o1.enc1 = o2.enc1 /\ o1.enc2 = o2.enc2
SameListing(rep1, rep2) == rep1 = rep2             \* literally, attribute order included

(* decode(encode(x)) = x for both formats: decoding succeeds, the decoded object lists the same
   ranges, compares equal to the original and encodes to the same bytes again *)
RtOk(rt, o) == rt.ok /\ rt.eq /\ AbsRep(rt.rep) = AbsRep(o.rep) /\ rt.re = rt.enc
C16_RoundTrip(o) == RtOk([ok |-> o.rt1.ok, eq |-> o.rt1.eq, rep |-> o.rt1.rep, re |-> o.rt1.re, enc |-> o.enc1], o)
                 /\ RtOk([ok |-> o.rt2.ok, eq |-> o.rt2.eq, rep |-> o.rt2.rep, re |-> o.rt2.re, enc |-> o.enc2], o)

(* queries: contains() over the probed points, is_empty(), len() = number of clients (IdSet) *)
C16_Query(o, probe, v) ==
  /\ ToSet(o.has) = DOMAIN v \cap ToSet(probe)
  /\ o.empty = IsEmpty(v)
  /\ (o.len # -1 => o.len = Cardinality(ClientsOf(v)))

(* attributions(c, lo, hi) = run-length listing of the attribute sets of the clocks of [lo,hi) *)
AttrListingOk(lst, v, c, lo, hi) ==
  /\ Len(lst) > 0
  /\ lst[1].lo = lo /\ lst[Len(lst)].hi = hi
  /\ \A j \in DOMAIN lst :
       /\ lst[j].lo < lst[j].hi
       /\ \A k \in lst[j].lo..(lst[j].hi - 1) : ToSet(lst[j].at) = AttrAt(v, c, k)
  /\ \A j \in 1..(Len(lst) - 1) : lst[j].hi = lst[j + 1].lo /\ ToSet(lst[j].at) # ToSet(lst[j + 1].at)

(* delete set of a document = exactly the ids of its deleted content *)
ADeleteSetExact(ar, deadIds) == DOMAIN ARepVal(ar) = deadIds /\ ACanonical(ar)
C16_DeleteSetExact(rep, deadIds) == ADeleteSetExact(AbsRep(rep), deadIds)

---------------------------------------------------------------------------
(* algebraic sanity of the operators themselves (design check, MC_IdSets) *)
Laws(a, b) ==
  /\ Merge(a, b) = Merge(b, a) /\ Merge(a, a) = a /\ Merge(a, EmptyVal) = a
  /\ Intersect(a, b) = Intersect(b, a)
  /\ Pts(Intersect(a, b)) = Pts(Diff(a, Diff(a, b)))
  /\ Merge(Diff(a, b), RestrictTo(a, Pts(Intersect(a, b)))) = a
  /\ SubsetOf(a, b) <=> IsEmpty(Diff(a, b))
  /\ SubsetOf(Diff(a, b), a) /\ SubsetOf(Intersect(a, b), b) /\ SubsetOf(a, Merge(a, b))
  /\ AsIdSet(Merge(a, b)) = Merge(AsIdSet(a), AsIdSet(b))
  /\ Diff(a, b) = Diff(a, AsIdSet(b))
  /\ (a = b) <=> (SubsetOf(a, b) /\ SubsetOf(b, a) /\ \A p \in DOMAIN a : a[p] = b[p])
CanonLaws(v) ==
  /\ ACanonical(Canon(v))
  /\ ARepVal(Canon(v)) = v
=============================================================================
