-------------------------- MODULE Trace_SyncProto --------------------------
(***************************************************************************)
(* V stage for the protocol half of C18: validates traces recorded from    *)
(* two real peers running DefaultProtocol::start / handle over byte queues *)
(* (harness/src/syncproto.rs) against the SyncProto specification.         *)
(* One total trace action per event kind; a failed predicate is added to   *)
(* `viol` and the rest of that behaviour is skipped up to the next reset.  *)
(* Implementation freedom is bound from the log and then checked: the ids  *)
(* a local edit created, the content of a SyncStep2 answer (it must be     *)
(* complete and sound, it may carry more than the minimum).                *)
(***************************************************************************)
EXTENDS SyncProto, Json, IOUtils

AW == INSTANCE Awareness

Rec == ndJsonDeserialize(IOEnv.TRACE)

VARIABLES l, bid,
          E,       \* id -> [deps, kind]
          doc,     \* peer -> [D, X]   (delivered units, delivered deletions)
          reg,     \* peer -> awareness register
          conn,    \* peer -> connected
          chan,    \* <<from, to>> -> sequence of frames [wire, msgs]
          edits,   \* sequence of [ins, del]: one update per edit step
          last,    \* peer -> last recorded observation
          failed, viol, drift, cnt
vars == <<l, bid, E, doc, reg, conn, chan, edits, last, failed, viol, drift, cnt>>

Ev == Rec[l]
Range(s) == {s[i] : i \in 1..Len(s)}
Ids(q) == Range(q)
None == <<0, 0>>
EmptyFn == [x \in {} |-> 0]
Peers == DOMAIN doc
Other(p) == CHOOSE q \in Peers : q # p

EmptyObs == [ids |-> <<>>, dead |-> <<>>, pend |-> <<>>, pds |-> <<>>, sv |-> <<>>, missing |-> FALSE,
             text |-> "", map |-> "{}", order |-> <<>>, integrity |-> "ok", awreg |-> <<>>]

---------------------------------------------------------------------------
(* recorded descriptors -> specification values *)
Entries(r) == {[client |-> r[i].c, clock |-> r[i].k, data |-> r[i].d] : i \in 1..Len(r)}
(* an awareness message sent on behalf of register r: faithful entries, every live client *)
AwSent(r, entries) ==
  /\ AW!WellFormedUpdate(entries)
  /\ AW!ClientsOf(entries) \subseteq DOMAIN r
  /\ entries = AW!MakeUpdate(r, AW!ClientsOf(entries))
  /\ AW!LiveClients(r) \subseteq AW!ClientsOf(entries)
RecReg(r) == [c \in {r[i].c : i \in 1..Len(r)} |->
                LET e == r[CHOOSE i \in 1..Len(r) : r[i].c = c] IN AW!Ent(e.k, e.d)]

MsgAbs(d) ==
  CASE d.t = "step1" -> [t |-> "step1", sv |-> Ids(d.sv)]
    [] d.t \in {"step2", "update"} -> [t |-> d.t, ins |-> Ids(d.ins), del |-> Ids(d.del)]
    [] d.t = "aw" -> [t |-> "aw", entries |-> Entries(d.entries)]
    [] OTHER -> [t |-> d.t]
Frame(f) == [wire |-> f.wire, msgs |-> [i \in 1..Len(f.msgs) |-> MsgAbs(f.msgs[i])]]

(* every message survives encode/decode: what the bytes say is what was meant, a second   *)
(* encode/decode of the decoded messages changes nothing, the independent decoder accepts *)
(* every update payload                                                                  *)
PayloadOk(d) == d.t \in {"step2", "update"} => d.err = ""
FrameRoundTrip(f) ==
  /\ f.err = ""
  /\ f.hasorig => f.msgs = f.orig
  /\ f.msgs2 = f.msgs          \* encoding the decoded messages again and decoding gives the same (the bytes
                               \* themselves may differ: the entry order of an awareness update is free)
  /\ \A i \in 1..Len(f.msgs) : PayloadOk(f.msgs[i])
AllRoundTrip(fs) == \A i \in 1..Len(fs) : FrameRoundTrip(fs[i])

(* element table extended by the units of a local edit *)
(* (clock contiguity is not a dependency: the code integrates a block beyond a clock gap) *)
UnitDeps(u) == {u.o, u.ro} \ {None}
Extend(us) ==
  LET fresh == {i \in 1..Len(us) : us[i].id \notin DOMAIN E}
      new   == {us[i].id : i \in fresh}
  IN [id \in DOMAIN E \cup new |->
        IF id \in DOMAIN E THEN E[id]
        ELSE LET u == us[CHOOSE i \in fresh : us[i].id = id]
             IN [deps |-> UnitDeps(u), kind |-> IF u.map THEN "map" ELSE "txt"]]

(* the recorded replica state realises the abstract document d *)
DocExact(E2, d, o) ==
  /\ Ids(o.ids) \cup Ids(o.pend) = d.D               \* nothing lost, nothing invented
  /\ d.X \subseteq Ids(o.dead) \cup Ids(o.pds)       \* every delivered deletion applied or stashed
  /\ Ids(o.dead) \subseteq Ids(o.ids)
  /\ \A x \in Ids(o.dead) \ d.X : x \in DOMAIN E2 /\ E2[x].kind = "map"   \* derived: overridden map entries only
  /\ o.integrity = "ok"
SvExact(o) == Ids(o.sv) = SVOf(Ids(o.ids))

(* both directions drained, both connected: equal documents, equal content, nothing stashed *)
QuiescentNow(conn2, chan2) == (\A p \in DOMAIN conn2 : conn2[p]) /\ (\A c \in DOMAIN chan2 : chan2[c] = <<>>)
QuiescentEqual(E2, doc2, reg2, last2) ==
  \A p, q \in DOMAIN doc2 :
     /\ C18_QuiescentEqual(doc2[p], doc2[q], Ids(last2[p].dead), Ids(last2[q].dead))
     /\ Ids(last2[p].ids) = Ids(last2[q].ids)
     /\ Ids(last2[p].dead) = Ids(last2[q].dead)
     /\ last2[p].order = last2[q].order
     /\ last2[p].text = last2[q].text
     /\ last2[p].map = last2[q].map
     \* nothing stays stashed once its dependencies are there (units: origins; deletions: target)
     /\ (doc2[p].D \subseteq DOMAIN E2 /\ DepClosed(E2, doc2[p].D)) => last2[p].pend = <<>>
     /\ doc2[p].X \subseteq doc2[p].D => last2[p].pds = <<>>
     /\ (doc2[p].D \subseteq DOMAIN E2 /\ DepClosed(E2, doc2[p].D) /\ doc2[p].X \subseteq doc2[p].D) => ~last2[p].missing
     /\ reg2[p] = reg2[q] /\ RecReg(last2[p].awreg) = RecReg(last2[q].awreg)

Failing(chk) == {chk[i][1] : i \in {j \in 1..Len(chk) : ~chk[j][2]}}
(* awareness registers: the recorded register is adopted; the specification's prediction must agree on the DATA of every *)
(* client (who is live with what state) - by how much clocks advance is the implementation's choice (DRIFT)             *)
RegWf(r) == \A i, j \in 1..Len(r) : r[i].c = r[j].c => i = j
SameData(a, b) == DOMAIN a = DOMAIN b /\ \A c \in DOMAIN a : a[c].data = b[c].data
RegDrift(rec, pred) == IF rec # pred THEN {"awareness-clock-policy"} ELSE {}

Record(chk, dr) ==
  /\ viol' = viol \cup {<<bid, p, l>> : p \in Failing(chk)}
  /\ failed' = (failed \/ Failing(chk) # {})
  /\ drift' = drift \cup {<<bid, d, l>> : d \in dr}
  /\ cnt' = [cnt EXCEPT !.ev = @ + 1, !.checks = @ + Len(chk)]

QChk(E2, doc2, reg2, conn2, chan2, last2) ==
  << <<"C18_QuiescentEqual", QuiescentNow(conn2, chan2) => QuiescentEqual(E2, doc2, reg2, last2)>> >>

Send(ch, f, t, frames) == [ch EXCEPT ![<<f, t>>] = @ \o [i \in 1..Len(frames) |-> Frame(frames[i])]]

---------------------------------------------------------------------------
Reset ==
  /\ Ev.k = "reset"
  /\ bid' = Ev.bid
  /\ LET ix == {i \in 1..Len(Ev.cfg.peers) : Ev.cfg.peers[i].role = "peer"}
         ps == {Ev.cfg.peers[i].id : i \in ix}
         awOf(p) == Ev.cfg.peers[CHOOSE i \in ix : Ev.cfg.peers[i].id = p].aw
     IN /\ doc' = [p \in ps |-> EmptyDoc]
        /\ reg' = [p \in ps |-> IF awOf(p) = "" THEN AW!EmptyReg ELSE AW!SetLocal(AW!EmptyReg, p, awOf(p))]
        /\ conn' = [p \in ps |-> FALSE]
        /\ chan' = [c \in {<<p, q>> : p, q \in ps} \ {<<p, p>> : p \in ps} |-> <<>>]
        /\ last' = [p \in ps |-> EmptyObs]
  /\ E' = EmptyFn /\ edits' = <<>>
  /\ failed' = FALSE
  /\ cnt' = [cnt EXCEPT !.beh = @ + 1]
  /\ UNCHANGED <<viol, drift>>

Skip ==
  /\ Ev.k # "reset" /\ failed
  /\ UNCHANGED <<bid, E, doc, reg, conn, chan, edits, last, failed, viol, drift, cnt>>

(* a local edit of a peer (forwarded when connected) or of the offline author *)
Edit ==
  /\ Ev.k = "edit" /\ ~failed
  /\ LET p    == Ev.p
         ok   == Ev.outcome = "ok" /\ Len(Ev.upds) = 1 /\ Ev.upds[1].err = ""
         u    == IF ok THEN Ev.upds[1] ELSE [ins |-> <<>>, del |-> <<>>, units |-> <<>>]
         ins  == Ids(u.ins)
         del  == Ids(u.del)
         E2   == Extend(u.units)
         isP  == p \in Peers
         m    == [t |-> "update", ins |-> ins, del |-> del]
         d2   == IF isP THEN ApplyPayload(doc[p], m) ELSE EmptyDoc
         doc2 == IF isP THEN [doc EXCEPT ![p] = d2] ELSE doc
         fwd  == isP /\ conn[p]
         chan2 == IF fwd THEN Send(chan, p, Other(p), Ev.sent) ELSE chan
         last2 == IF isP THEN [last EXCEPT ![p] = Ev.obs] ELSE last
         nxt  == <<p, Cardinality({x \in DOMAIN E : x[1] = p})>>
         shape == CASE Ev.kind = "del" -> ins = {} /\ del = {Ev.x}
                    [] Ev.kind = "set" -> ins = {nxt} /\ \A x \in del : x \in DOMAIN E /\ E[x].kind = "map"
                    [] OTHER -> ins = {nxt} /\ del = {}
         chk == << <<"C18_NoFailure", ok>>,
                   <<"C18_DocExact", (ins \cap DOMAIN E = {}) /\ (\A x \in ins : x[1] = p)
                                     /\ (isP => DocExact(E2, d2, Ev.obs) /\ SvExact(Ev.obs))>>,
                   <<"C18_Forwarded", IF fwd THEN /\ Len(Ev.sent) = 1 /\ Len(Ev.sent[1].msgs) = 1
                                                  /\ MsgAbs(Ev.sent[1].msgs[1]) = m
                                      ELSE Ev.sent = <<>>>>,
                   <<"C18_MessageRoundTrip", AllRoundTrip(Ev.sent)>> >>
                \o QChk(E2, doc2, reg, conn, chan2, last2)
     IN /\ Record(chk, IF ok /\ ~shape THEN {"edit-shape"} ELSE {})
        /\ E' = E2 /\ doc' = doc2 /\ chan' = chan2 /\ last' = last2
        /\ edits' = Append(edits, [ins |-> ins, del |-> del])
  /\ UNCHANGED <<bid, reg, conn>>

(* out of band, before the connection: one update reaches a peer on its own *)
Pre ==
  /\ Ev.k = "pre" /\ ~failed
  /\ LET t  == Ev.t
         d2 == ApplyPayload(doc[t], edits[Ev.u])
         doc2 == [doc EXCEPT ![t] = d2]
         last2 == [last EXCEPT ![t] = Ev.obs]
         chk == << <<"C18_NoFailure", Ev.outcome = "ok">>,
                   <<"C18_DocExact", DocExact(E, d2, Ev.obs) /\ SvExact(Ev.obs)>> >>
                \o QChk(E, doc2, reg, conn, chan, last2)
     IN /\ Record(chk, {})
        /\ doc' = doc2 /\ last' = last2
  /\ UNCHANGED <<bid, E, reg, conn, chan, edits>>

(* Protocol::start: a frame that carries exactly one SyncStep1 (state vector of the        *)
(* integrated part) and the peer's own live awareness states                             *)
Connect ==
  /\ Ev.k = "connect" /\ ~failed
  /\ LET p  == Ev.p
         fr == IF Len(Ev.sent) = 1 THEN Frame(Ev.sent[1]) ELSE [wire |-> "", msgs |-> <<>>]
         s1 == {i \in 1..Len(fr.msgs) : fr.msgs[i].t = "step1"}
         ok == Ev.outcome = "ok" /\ Len(Ev.sent) = 1 /\ Cardinality(s1) = 1
               /\ \A i \in 1..Len(fr.msgs) : fr.msgs[i].t \in {"step1", "aw", "query"}
         conn2 == [conn EXCEPT ![p] = TRUE]
         chan2 == IF ok THEN Send(chan, p, Other(p), Ev.sent) ELSE chan
         last2 == [last EXCEPT ![p] = Ev.obs]
         regA == IF RegWf(Ev.obs.awreg) THEN [reg EXCEPT ![p] = RecReg(Ev.obs.awreg)] ELSE reg
         chk == << <<"C18_NoFailure", Ev.outcome = "ok">>,
                   <<"C18_StartShape", ok>>,
                   <<"C18_Step1Exact", ok => \A i \in s1 : (C18_Step1Exact(Ids(Ev.obs.ids), fr.msgs[i])
                                                             /\ fr.msgs[i].sv = Ids(Ev.obs.sv))>>,
                   <<"C18_AwarenessSent", ok => \A i \in 1..Len(fr.msgs) :
                                                  fr.msgs[i].t = "aw" => AwSent(reg[p], fr.msgs[i].entries)>>,
                   <<"C18_MessageRoundTrip", AllRoundTrip(Ev.sent)>>,
                   <<"C18_DocExact", DocExact(E, doc[p], Ev.obs) /\ SvExact(Ev.obs)>>,
                   <<"C18_RegisterData", RegWf(Ev.obs.awreg) /\ SameData(RecReg(Ev.obs.awreg), reg[p])>> >>
                \o QChk(E, doc, regA, conn2, chan2, last2)
     IN /\ Record(chk, RegDrift(RecReg(Ev.obs.awreg), reg[p]))
        /\ conn' = conn2 /\ chan' = chan2 /\ last' = last2 /\ reg' = regA
  /\ UNCHANGED <<bid, E, doc, edits>>

(* Protocol::handle on the head frame of the inbox: every message in order; the replies are *)
(* bound from the log and checked                                                          *)
RECURSIVE Fold(_, _, _, _, _, _)
Fold(p, ms, s, outs, k, chk) ==     \* s = [doc, reg]; k = replies consumed so far
  IF ms = <<>> THEN [s |-> s, k |-> k, chk |-> chk]
  ELSE LET m == Head(ms)
           has == k + 1 <= Len(outs) /\ Len(outs[k + 1].msgs) = 1
           r == IF has THEN MsgAbs(outs[k + 1].msgs[1]) ELSE [t |-> "none"]
       IN CASE m.t = "step1" ->
                 Fold(p, Tail(ms), s, outs, k + 1, chk \o
                      << <<"C18_Step2Complete", r.t = "step2" /\ C18_Step2Complete(s.doc, m.sv, r)>>,
                         <<"C18_Step2Sound", r.t = "step2" /\ C18_Step2Sound(s.doc, r)>> >>)
            [] m.t \in {"step2", "update"} ->
                 Fold(p, Tail(ms), [s EXCEPT !.doc = ApplyPayload(@, m)], outs, k, chk)
            [] m.t = "aw" ->
                 Fold(p, Tail(ms), [s EXCEPT !.reg = AW!Apply(@, p, m.entries)], outs, k, chk \o
                      << <<"C18_OwnStateKept", AW!C18_OwnStateKept(s.reg, AW!Apply(s.reg, p, m.entries), p)>> >>)
            [] m.t = "query" ->
                 Fold(p, Tail(ms), s, outs, k + 1, chk \o
                      << <<"C18_AwarenessSent", r.t = "aw" /\ AwSent(s.reg, r.entries)>> >>)
            [] OTHER -> Fold(p, Tail(ms), s, outs, k, chk \o << <<"C18_UnexpectedMessage", FALSE>> >>)

Handle ==
  /\ Ev.k = "handle" /\ ~failed
  /\ LET p  == Ev.p
         q  == Other(p)
         okin == conn[p] /\ chan[<<q, p>>] # <<>> /\ Head(chan[<<q, p>>]).wire = Ev["in"].wire
         ms == IF okin THEN Head(chan[<<q, p>>]).msgs ELSE <<>>
         r  == Fold(p, ms, [doc |-> doc[p], reg |-> reg[p]], Ev.sent, 0, <<>>)
         doc2 == [doc EXCEPT ![p] = r.s.doc]
         reg2 == [reg EXCEPT ![p] = IF RegWf(Ev.obs.awreg) THEN RecReg(Ev.obs.awreg) ELSE r.s.reg]
         chan1 == IF okin THEN [chan EXCEPT ![<<q, p>>] = Tail(@)] ELSE chan
         chan2 == Send(chan1, p, q, Ev.sent)
         last2 == [last EXCEPT ![p] = Ev.obs]
         chk == << <<"C18_NoFailure", Ev.outcome = "ok">>,
                   <<"C18_ChannelFifo", okin>>,
                   <<"C18_ReplyCount", Len(Ev.sent) = r.k>>,
                   <<"C18_MessageRoundTrip", AllRoundTrip(Ev.sent)>>,
                   <<"C18_DocExact", DocExact(E, r.s.doc, Ev.obs) /\ SvExact(Ev.obs)>>,
                   <<"C18_RegisterData", RegWf(Ev.obs.awreg) /\ SameData(RecReg(Ev.obs.awreg), r.s.reg)>> >>
                \o r.chk \o QChk(E, doc2, reg2, conn, chan2, last2)
     IN /\ Record(chk, RegDrift(RecReg(Ev.obs.awreg), r.s.reg))
        /\ doc' = doc2 /\ reg' = reg2 /\ chan' = chan2 /\ last' = last2
  /\ UNCHANGED <<bid, E, conn, edits>>

(* a connected peer sends an AwarenessQuery *)
Query ==
  /\ Ev.k = "query" /\ ~failed
  /\ LET p  == Ev.p
         ok == Ev.outcome = "ok" /\ Len(Ev.sent) = 1 /\ Len(Ev.sent[1].msgs) = 1 /\ Ev.sent[1].msgs[1].t = "query"
         chan2 == IF ok THEN Send(chan, p, Other(p), Ev.sent) ELSE chan
         chk == << <<"C18_NoFailure", ok>>,
                   <<"C18_MessageRoundTrip", AllRoundTrip(Ev.sent)>> >>
     IN /\ Record(chk, {})
        /\ chan' = chan2
  /\ UNCHANGED <<bid, E, doc, reg, conn, edits, last>>

(* message shapes: a sequence of messages written into one buffer and read back with   *)
(* MessageReader, and each message alone through Message::decode_v1                    *)
Codec ==
  /\ Ev.k = "codec" /\ ~failed
  /\ LET f == Ev.frame
         chk == << <<"C18_NoFailure", Ev.outcome = "ok">>,
                   <<"C18_MessageRoundTrip", f.hasorig /\ FrameRoundTrip(f) /\ Ev.single = f.orig>> >>
     IN Record(chk, {})
  /\ UNCHANGED <<bid, E, doc, reg, conn, chan, edits, last>>

TInit == /\ l = 1 /\ bid = "" /\ E = EmptyFn /\ doc = EmptyFn /\ reg = EmptyFn /\ conn = EmptyFn
         /\ chan = EmptyFn /\ edits = <<>> /\ last = EmptyFn
         /\ failed = FALSE /\ viol = {} /\ drift = {} /\ cnt = [beh |-> 0, ev |-> 0, checks |-> 0]

TNext == /\ l <= Len(Rec)
         /\ l' = l + 1
         /\ (Reset \/ Skip \/ Edit \/ Pre \/ Connect \/ Query \/ Handle \/ Codec)

TSpec == TInit /\ [][TNext]_vars

Verdict == l = Len(Rec) + 1 =>
             PrintT(<<"VERDICT", ToJson([viol |-> viol, drift |-> drift, cnt |-> cnt, lines |-> Len(Rec)])>>)
Consumed == TLCGet("stats").diameter = Len(Rec) + 1
=============================================================================
