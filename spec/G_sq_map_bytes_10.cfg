CONSTANTS
  Family = "map"
  Unit = "bytes"
  MaxOps = 10
  Shape <- NoShape
SPECIFICATION Spec
INVARIANTS InvWellFormed InvUniqueTags PrintSchedules
CHECK_DEADLOCK FALSE
