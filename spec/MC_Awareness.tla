--------------------------- MODULE MC_Awareness ---------------------------
(***************************************************************************)
(* Bounded model over the Awareness operators (C18).                       *)
(* Producer phase: owner peers set / clean their state, time out each      *)
(* other's state, cut updates (any subset of the clients they know) and    *)
(* apply each other's updates.  Consumer phase: observer peers apply the   *)
(* produced updates in every order, with duplicates.  "What has been       *)
(* applied" is kept for observers only (DESIGN 3.1, Lesson).               *)
(*  - design check: all invariants in all states (history hidden by VIEW); *)
(*  - G stage: the history variable makes every behaviour a distinct path; *)
(*    each complete one is printed as a schedule for X.                    *)
(***************************************************************************)
EXTENDS Awareness, Json

CONSTANTS Owners,     \* client ids of the producer peers
          Setters,    \* the producers that set / clean a state of their own (the others only
                      \* time out states, relay and cut updates)
          Obs,        \* client ids of the observer peers
          Val,        \* values an owner may set
          FirstVal,   \* the value an owner sets first (see DoSet)
          MaxClock,   \* no local operation raises a clock above this
          MaxUpd,     \* number of updates cut in the producer phase
          MaxSteps,   \* number of producer steps (G); large for the design check
          Dups        \* an observer may apply one update a second time

VARIABLES st,      \* peer -> register
          upd,     \* sequence of [by, u]: updates in emission order
          got,     \* observer -> sequence of indexes into upd, in application order
          used,    \* owners that have set a value
          steps, phase, hist
vars == <<st, upd, got, used, steps, phase, hist>>

Peers == Owners \cup Obs
Range(s) == {s[i] : i \in 1..Len(s)}
DupsUsed(o) == Len(got[o]) - Cardinality(Range(got[o]))
(* the design check identifies states up to the emission order of the updates *)
view == <<st, used, Range(upd), [o \in Obs |-> <<{upd[i] : i \in Range(got[o])}, DupsUsed(o)>>], phase>>

ClockOf(reg, c) == IF c \in DOMAIN reg THEN reg[c].clock ELSE 0

Step(p, reg2, h) ==
  /\ st' = [st EXCEPT ![p] = reg2]
  /\ steps' = steps + 1
  /\ hist' = Append(hist, h)
  /\ UNCHANGED <<got, phase>>

(* values of different owners are never compared and the register only tests values for   *)
(* equality: the first value an owner sets is fixed (any other run is a renaming of one kept) *)
DoSet(p, v) ==
  /\ ClockOf(st[p], p) < MaxClock
  /\ p \notin used => v = FirstVal
  /\ used' = used \cup {p}
  /\ Step(p, SetLocal(st[p], p, v), [a |-> "set", p |-> p, v |-> v])
  /\ UNCHANGED upd

DoClean(p) ==
  /\ ClockOf(st[p], p) < MaxClock
  /\ Step(p, CleanLocal(st[p], p), [a |-> "clean", p |-> p])
  /\ UNCHANGED <<upd, used>>

DoRemove(p, c) ==
  /\ ClockOf(st[p], c) < MaxClock
  /\ Step(p, RemoveState(st[p], c), [a |-> "rem", p |-> p, c |-> c])
  /\ UNCHANGED <<upd, used>>

DoUpdate(p, cs) ==
  /\ Len(upd) < MaxUpd
  /\ [by |-> p, u |-> MakeUpdate(st[p], cs)] \notin Range(upd)   \* the same update twice adds nothing
  /\ upd' = Append(upd, [by |-> p, u |-> MakeUpdate(st[p], cs)])
  /\ Step(p, st[p], [a |-> "upd", p |-> p, cs |-> cs,
                     how |-> IF cs = LiveClients(st[p]) THEN "full" ELSE "subset"])
  /\ UNCHANGED used

DoOwnerApply(p, i) ==
  /\ Step(p, Apply(st[p], p, upd[i].u), [a |-> "app", p |-> p, u |-> i])
  /\ UNCHANGED <<upd, used>>

DoObsApply(o, i) ==
  /\ st' = [st EXCEPT ![o] = Apply(st[o], o, upd[i].u)]
  /\ got' = [got EXCEPT ![o] = Append(@, i)]
  /\ hist' = Append(hist, [a |-> "app", p |-> o, u |-> i])
  /\ UNCHANGED <<upd, used, steps, phase>>

Next ==
  \/ /\ phase = "P" /\ steps < MaxSteps
     /\ \E p \in Owners :
          \/ p \in Setters /\ \E v \in Val : DoSet(p, v)
          \/ p \in Setters /\ DoClean(p)
          \/ \E c \in Setters \ {p} : DoRemove(p, c)
          \/ \E cs \in (SUBSET DOMAIN st[p]) \ {{}} : DoUpdate(p, cs)
          \/ \E i \in 1..Len(upd) : upd[i].by # p /\ DoOwnerApply(p, i)
  \/ /\ phase = "P" /\ Len(upd) >= 1
     /\ phase' = "C"
     /\ UNCHANGED <<st, upd, got, used, steps, hist>>
  \/ /\ phase = "C"
     /\ \E o \in Obs : \E i \in 1..Len(upd) :
          /\ (i \notin Range(got[o]) \/ (Dups /\ DupsUsed(o) = 0))
          /\ DoObsApply(o, i)

Init ==
  /\ st = [p \in Peers |-> EmptyReg]
  /\ upd = <<>> /\ got = [o \in Obs |-> <<>>]
  /\ used = {} /\ steps = 0 /\ phase = "P" /\ hist = <<>>

Spec == Init /\ [][Next]_vars

Done == phase = "C" /\ \A o \in Obs : Range(got[o]) = 1..Len(upd)
PrintSchedules == Done => PrintT(<<"REPLAY", ToJson(hist)>>)

---------------------------------------------------------------------------
(* Invariants (design check).  The step predicates are evaluated for every *)
(* peer against every update that exists, i.e. for every Apply step that   *)
(* could be taken from the state.                                          *)
Upds == {upd[i].u : i \in 1..Len(upd)}
AppliedBy(o) == {upd[i].u : i \in Range(got[o])}

InvWellFormed  == \A u \in Upds : WellFormedUpdate(u)
InvMonotone    == \A p \in Peers : \A u \in Upds : C18_ClockMonotone(st[p], Apply(st[p], p, u))
InvNoLower     == \A p \in Peers : \A u \in Upds : C18_NoLowerReplaces(st[p], Apply(st[p], p, u), u)
InvOwnKept     == \A p \in Peers : \A u \in Upds :
                     /\ C18_OwnStateKept(st[p], Apply(st[p], p, u), p)
                     /\ C18_OwnerReasserts(st[p], Apply(st[p], p, u), p, u)
InvLocalMonotone == \A p \in Owners :
                     /\ \A v \in Val : C18_ClockMonotone(st[p], SetLocal(st[p], p, v))
                     /\ \A c \in Owners : C18_ClockMonotone(st[p], RemoveState(st[p], c))
InvIdempotent  == /\ \A p \in Peers : \A u \in Upds : C18_IdempotentNow(st[p], p, u)
                  /\ \A o \in Obs : \A u \in AppliedBy(o) : C18_Idempotent(st[o], o, u)
InvOrder       == \A o1, o2 \in Obs : Range(got[o1]) = Range(got[o2]) => st[o1] = st[o2]
(* lemma behind order-insensitivity: a (client, clock) pair carries at most one value *)
InvUniqueValue == \A u1, u2 \in Upds : \A e1 \in u1 : \A e2 \in u2 :
                     (e1.client = e2.client /\ e1.clock = e2.clock /\ e1.data # Null /\ e2.data # Null)
                        => e1.data = e2.data
InvMaximum     == \A o \in Obs : C18_IsMaximum(st[o], UNION AppliedBy(o))
=============================================================================
