------------------------------ MODULE MC_Undo ------------------------------
(***************************************************************************)
(* G stage and design model of C12.  TLC enumerates PROGRAMS: words over    *)
(*   tracked edit (origin U) | tick | ustop | undo | redo |                 *)
(*   foreign local edit (untracked origin) | remote edit by replica 2 |     *)
(*   delivery of that remote edit to replica 1                              *)
(* for one tracked root type Kind (t = text, a = array with a nested map,   *)
(* m = map with nested arrays, x = XML fragment: elements with attributes   *)
(* and children, text nodes with characters and formatting).  Replica 1     *)
(* owns the undo manager.                                                   *)
(* An abstract content C (unique tokens) is kept so that the generated      *)
(* addresses are meaningful; X resolves every address against the real      *)
(* visible state (index clamped, inapplicable step = empty slot), so the    *)
(* abstraction only has to be plausible, not exact, once foreign edits are  *)
(* mixed in.  Without foreign edits it IS exact, and the abstract manager   *)
(* of Undo.tla is run on it: the invariants below are the design check of   *)
(* the inverse-law operators (every call determined, undo then redo returns *)
(* to the same content, ...).                                               *)
(***************************************************************************)
EXTENDS Undo, Json

CONSTANTS Kind,        \* "t" | "a" | "m" | "x"
          MaxE,        \* tracked edits (exactly)
          MaxUR,       \* undo / redo calls (exactly)
          MaxF,        \* foreign edits (at most): untracked local origin or remote
          UseStop,     \* ustop may replace one tick
          Flat         \* Kind "m": one key (k1), primitive values only (deep histories of a single map entry);
                       \* Kind "x": one element (created by the first edit), afterwards only its attribute "id" is set / removed
          ,Pre         \* Kind "x" (and every kind with Shape "wiggle": C0 below): the tracked root already holds content of ANOTHER origin when the manager starts (the pipeline
                       \* prepends the edits creating it): <e id=..>[text node], text node with two characters
          ,Shape       \* "any" | "wiggle".  wiggle: the tracked root starts empty or (Pre) with prepared content (C0 below; the
                       \* pipeline prepends the edits creating it), the program is  edit (tick edit)^(MaxE-1) ; U^p (R U)^j U U R R  with
                       \* p \in 1..MaxP, j \in 1..MaxW: every edit is its own capture step, then an outer step is undone / redone /
                       \* undone ... (whatever it re-creates is re-created j+1 times) BEFORE older steps are undone; foreign
                       \* edits (MaxF) may be interleaved after the first call.  MaxUR is not used.
          ,MaxP, MaxW

VARIABLES C,      \* abstract content of the tracked root
          M,      \* abstract manager (Undo.tla), views = contents
          tok,    \* next fresh token
          now,    \* controlled clock
          nE, nUR, nF, nEmpty, nStop,
          lastK,  \* kind of the previous step: "" | "E" | "T" (tick / stop: a tracked edit must follow) | "O"
          pend,   \* remote edit under way: <<>> or <<op, its update slot>>
          slots,  \* update slots used so far
          clean,  \* no foreign edit so far
          prev,   \* content before the last successful undo while nothing else happened since (design check)
          wq,     \* Shape "wiggle": the undo (TRUE) / redo (FALSE) calls still to be made, chosen initially
          hist
vars == <<C, M, tok, now, nE, nUR, nF, nEmpty, nStop, lastK, pend, slots, clean, prev, wq, hist>>
view == <<C, M, tok, now, nE, nUR, nF, nEmpty, nStop, lastK, pend, slots, clean, prev, wq>>

Min(a, b) == IF a < b THEN a ELSE b
InsAt(s, i, x) == SubSeq(s, 1, i) \o x \o SubSeq(s, i + 1, Len(s))
RemAt(s, i) == SubSeq(s, 1, i - 1) \o SubSeq(s, i + 1, Len(s))      \* 1-based

(* uniform value records (TLC cannot compare values of different shapes) *)
Val(k, id, e, mm) == [k |-> k, id |-> id, e |-> e, mm |-> mm]
NoVal == Val("-", 0, <<>>, <<0, 0>>)
C0 == IF Shape = "wiggle" /\ Pre /\ Kind = "t" THEN <<901, 902, 903>>
      ELSE IF Shape = "wiggle" /\ Pre /\ Kind = "a"
           THEN << Val("u", 901, <<>>, <<0, 0>>), Val("M", 902, <<>>, <<903, 0>>), Val("u", 904, <<>>, <<0, 0>>) >>
      ELSE IF Shape = "wiggle" /\ Pre /\ Kind = "m" THEN << Val("A", 901, <<902, 903>>, <<0, 0>>), Val("u", 904, <<>>, <<0, 0>>) >>
      ELSE IF Kind = "m" THEN <<NoVal, NoVal>>
      ELSE IF Kind = "x" /\ Pre
           THEN << Val("E", 901, << <<903, 1>> >>, <<902, 0>>), Val("T", 904, << <<905, 0>>, <<906, 0>> >>, <<0, 0>>) >>
           ELSE <<>>

KeyIx(key) == IF key \in {"k1"} THEN 1 ELSE 2           \* root map: k1 k2; nested map: k1 k3
KeyName(root, ix) == IF ix = 1 THEN "k1" ELSE IF root THEN "k2" ELSE "k3"
FirstM(c) == IF \E i \in 1..Len(c) : c[i].k = "M" THEN CHOOSE i \in 1..Len(c) : c[i].k = "M" /\ \A j \in 1..(i - 1) : c[j].k # "M" ELSE 0

(* an operation: [op, p, i, n, key, k]; Apply mirrors the address resolution of X (clamping) *)
Op(op, p, i, n, key, k) == [op |-> op, p |-> p, i |-> i, n |-> n, key |-> key, k |-> k]

(* Kind "x".  Content = sequence of nodes.  Element: Val("E", id, children, <<attribute id, attribute cl>>), children =  *)
(* <<token, 0 | 1>> (element | text node, opaque).  Text node: Val("T", id, characters, <<0, 0>>), characters =         *)
(* <<token, format value>> (0 = unformatted).  X makes every node unique by value (fresh element name, fresh `uid`      *)
(* attribute of a text node), like the tokens here.  Addresses: "#e0" / "#t0" = first element / first text node.        *)
FirstK(c, k) == IF \E i \in 1..Len(c) : c[i].k = k THEN CHOOSE i \in 1..Len(c) : c[i].k = k /\ \A j \in 1..(i - 1) : c[j].k # k ELSE 0
XKeyIx(key) == IF key = "id" THEN 1 ELSE 2
XKeyName(ix) == IF ix = 1 THEN "id" ELSE "cl"
RemRange(s, i, n) == SubSeq(s, 1, i) \o SubSeq(s, i + n + 1, Len(s))           \* 0-based start, n elements
ClampDel(s, i, n) == LET i2 == Min(i, Len(s) - 1) IN RemRange(s, i2, Min(n, Len(s) - i2))
ApplyX(c, o, t) ==
  IF Len(o.p) = 1 THEN
     (IF o.op = "ins" THEN InsAt(c, Min(o.i, Len(c)),
                                 << IF o.k = "X" THEN Val("T", t, << <<t + 1, 0>> >>, <<0, 0>>) ELSE Val("E", t, <<>>, <<0, 0>>) >>)
      ELSE IF Len(c) = 0 THEN c ELSE ClampDel(c, o.i, o.n))
  ELSE IF o.p[2] = "#e0" THEN
     LET f == FirstK(c, "E") IN
     IF f = 0 THEN c
     ELSE IF o.op = "set" THEN [c EXCEPT ![f].mm[XKeyIx(o.key)] = t]
     ELSE IF o.op = "rem" THEN [c EXCEPT ![f].mm[XKeyIx(o.key)] = 0]
     ELSE IF o.op = "ins" THEN [c EXCEPT ![f].e = InsAt(@, Min(o.i, Len(@)), << <<t, IF o.k = "X" THEN 1 ELSE 0>> >>)]
     ELSE IF Len(c[f].e) = 0 THEN c ELSE [c EXCEPT ![f].e = ClampDel(@, o.i, o.n)]
  ELSE
     LET f == FirstK(c, "T") IN
     IF f = 0 THEN c
     ELSE LET e == c[f].e
              i2 == Min(o.i, Len(e))
          IN IF o.op = "ins" THEN [c EXCEPT ![f].e = InsAt(e, i2, << <<t, IF i2 = 0 THEN 0 ELSE e[i2][2]>> >>)]
             ELSE IF Len(e) = 0 THEN c
             ELSE IF o.op = "del" THEN [c EXCEPT ![f].e = ClampDel(e, o.i, o.n)]
             ELSE LET j == Min(o.i, Len(e) - 1)                 \* fmt: characters j+1 .. j+n get the fresh format value
                      m == Min(o.n, Len(e) - j)
                  IN [c EXCEPT ![f].e = [x \in 1..Len(e) |-> IF x > j /\ x <= j + m THEN <<e[x][1], t>> ELSE e[x]]]

MenuX(c) ==
  LET fe == FirstK(c, "E")
      ft == FirstK(c, "T")
  IN IF Flat THEN
       (IF fe = 0 THEN {Op("ins", <<"x">>, 0, 1, "", "E")}
        ELSE {Op("set", <<"x", "#e0">>, 0, 1, "id", "u")}
             \cup (IF c[fe].mm[1] # 0 THEN {Op("rem", <<"x", "#e0">>, 0, 1, "id", "u")} ELSE {}))
     ELSE IF Pre THEN      \* trimmed menu (the prepared content makes every branch available from the first edit on)
       {Op("ins", <<"x">>, 0, 1, "", "E"), Op("ins", <<"x">>, Len(c), 1, "", "X")}
       \cup {Op("del", <<"x">>, i, 1, "", "u") : i \in {0, Len(c) - 1} \cap 0..(Len(c) - 1)}
       \cup (IF Len(c) >= 2 THEN {Op("del", <<"x">>, 0, 2, "", "u")} ELSE {})
       \cup (IF fe # 0
             THEN {Op("set", <<"x", "#e0">>, 0, 1, "id", "u"), Op("ins", <<"x", "#e0">>, 0, 1, "", "E"),
                   Op("ins", <<"x", "#e0">>, Len(c[fe].e), 1, "", "X")}
                  \cup (IF c[fe].mm[1] # 0 THEN {Op("rem", <<"x", "#e0">>, 0, 1, "id", "u")} ELSE {})
                  \cup (IF Len(c[fe].e) > 0 THEN {Op("del", <<"x", "#e0">>, 0, 1, "", "u")} ELSE {})
             ELSE {})
       \cup (IF ft # 0
             THEN {Op("ins", <<"x", "#t0">>, i, 1, "", "u") : i \in {0, Len(c[ft].e)}}
                  \cup (IF Len(c[ft].e) > 0 THEN {Op("del", <<"x", "#t0">>, 0, 1, "", "u"), Op("fmt", <<"x", "#t0">>, 0, 1, "b", "u")} ELSE {})
                  \cup (IF Len(c[ft].e) > 1 THEN {Op("fmt", <<"x", "#t0">>, 0, Len(c[ft].e), "b", "u")} ELSE {})
             ELSE {})
     ELSE
       {Op("ins", <<"x">>, i, 1, "", k) : i \in {0, Len(c)}, k \in {"E", "X"}}
       \cup {Op("del", <<"x">>, i, 1, "", "u") : i \in 0..(Len(c) - 1)}
       \cup (IF Len(c) >= 2 THEN {Op("del", <<"x">>, 0, 2, "", "u")} ELSE {})
       \cup (IF fe # 0
             THEN {Op("set", <<"x", "#e0">>, 0, 1, key, "u") : key \in {"id", "cl"}}
                  \cup {Op("rem", <<"x", "#e0">>, 0, 1, XKeyName(x), "u") : x \in {y \in 1..2 : c[fe].mm[y] # 0}}
                  \cup {Op("ins", <<"x", "#e0">>, i, 1, "", k) : i \in {0, Len(c[fe].e)}, k \in {"E", "X"}}
                  \cup {Op("del", <<"x", "#e0">>, i, 1, "", "u") : i \in 0..(Len(c[fe].e) - 1)}
             ELSE {})
       \cup (IF ft # 0
             THEN {Op("ins", <<"x", "#t0">>, i, 1, "", "u") : i \in {0, Len(c[ft].e)}}
                  \cup {Op("del", <<"x", "#t0">>, i, 1, "", "u") : i \in {0, Len(c[ft].e) - 1} \cap 0..(Len(c[ft].e) - 1)}
                  \cup (IF Len(c[ft].e) > 0 THEN {Op("fmt", <<"x", "#t0">>, 0, 1, "b", "u")} ELSE {})
                  \cup (IF Len(c[ft].e) > 1 THEN {Op("fmt", <<"x", "#t0">>, 0, Len(c[ft].e), "b", "u"),
                                                   Op("fmt", <<"x", "#t0">>, Len(c[ft].e) - 1, 1, "b", "u")} ELSE {})
             ELSE {})

FMenuX(c) ==
  LET fe == FirstK(c, "E")
      ft == FirstK(c, "T")
  IN {Op("ins", <<"x">>, 0, 1, "", "E")}
     \cup (IF Len(c) > 0 THEN {Op("del", <<"x">>, 0, 1, "", "u")} ELSE {})
     \cup (IF fe # 0 THEN {Op("set", <<"x", "#e0">>, 0, 1, "id", "u")} \cup (IF Pre THEN {} ELSE {Op("ins", <<"x", "#e0">>, 0, 1, "", "X")}) ELSE {})
     \cup (IF ft # 0 THEN {Op("ins", <<"x", "#t0">>, 0, 1, "", "u")}
                          \cup (IF Len(c[ft].e) > 0 THEN {Op("del", <<"x", "#t0">>, 0, 1, "", "u")} ELSE {})
                          \cup (IF Len(c[ft].e) > 0 /\ ~Pre THEN {Op("fmt", <<"x", "#t0">>, 0, 1, "b", "u")} ELSE {})
           ELSE {})

Apply(c, o, t) ==
  IF Kind = "x" THEN ApplyX(c, o, t)
  ELSE IF Kind = "t" THEN
     (IF o.op = "ins" THEN InsAt(c, Min(o.i, Len(c)), [j \in 1..o.n |-> t + j - 1])
      ELSE IF Len(c) = 0 THEN c ELSE ClampDel(c, o.i, o.n))
  ELSE IF Kind = "a" THEN
     (IF Len(o.p) = 1 THEN
         (IF o.op = "ins" THEN InsAt(c, Min(o.i, Len(c)),
                                      << IF o.k = "M" THEN Val("M", t, <<>>, <<t + 1, 0>>) ELSE Val("u", t, <<>>, <<0, 0>>) >>)
          ELSE IF Len(c) = 0 THEN c ELSE RemAt(c, Min(o.i, Len(c) - 1) + 1))
      ELSE LET f == FirstM(c) IN
           IF f = 0 THEN c
           ELSE IF o.op = "set" THEN [c EXCEPT ![f].mm[KeyIx(o.key)] = t]
           ELSE [c EXCEPT ![f].mm[KeyIx(o.key)] = 0])
  ELSE
     (IF Len(o.p) = 1 THEN
         (IF o.op = "set" THEN [c EXCEPT ![KeyIx(o.key)] = IF o.k = "A" THEN Val("A", t, <<t + 1>>, <<0, 0>>) ELSE Val("u", t, <<>>, <<0, 0>>)]
          ELSE [c EXCEPT ![KeyIx(o.key)] = NoVal])
      ELSE LET x == KeyIx(o.p[2]) IN
           IF c[x].k # "A" THEN c
           ELSE IF o.op = "ins" THEN [c EXCEPT ![x].e = InsAt(@, Min(o.i, Len(@)), <<t>>)]
           ELSE IF Len(c[x].e) = 0 THEN c ELSE [c EXCEPT ![x].e = RemAt(@, Min(o.i, Len(@) - 1) + 1)])

(* tracked-edit menu in content c *)
Menu(c) ==
  IF Kind = "x" THEN MenuX(c)
  ELSE IF Kind = "t" THEN
     {Op("ins", <<"t">>, i, 1, "", "u") : i \in 0..Len(c)} \cup {Op("ins", <<"t">>, 0, 2, "", "u")}
     \cup {Op("del", <<"t">>, i, 1, "", "u") : i \in 0..(Len(c) - 1)}
     \* wiggle: also ranges of two (a squashed run deleted as a whole, then re-created as ONE block)
     \cup (IF Shape = "wiggle" THEN {Op("del", <<"t">>, i, 2, "", "u") : i \in 0..(Len(c) - 2)} ELSE {})
  ELSE IF Kind = "a" THEN
     {Op("ins", <<"a">>, i, 1, "", "u") : i \in 0..Len(c)}
     \cup (IF FirstM(c) = 0 THEN {Op("ins", <<"a">>, i, 1, "", "M") : i \in {0, Len(c)}} ELSE {})
     \cup {Op("del", <<"a">>, i, 1, "", "u") : i \in 0..(Len(c) - 1)}
     \cup (IF FirstM(c) # 0
           THEN {Op("set", <<"a", "#0">>, 0, 1, key, "u") : key \in {"k1", "k3"}}
                \cup {Op("rem", <<"a", "#0">>, 0, 1, KeyName(FALSE, x), "u") : x \in {y \in 1..2 : c[FirstM(c)].mm[y] # 0}}
           ELSE {})
  ELSE IF Flat THEN
     {Op("set", <<"m">>, 0, 1, "k1", "u")} \cup (IF c[1].k # "-" THEN {Op("rem", <<"m">>, 0, 1, "k1", "u")} ELSE {})
  ELSE
     UNION { {Op("set", <<"m">>, 0, 1, KeyName(TRUE, x), "u")}
             \cup (IF c[x].k # "A" THEN {Op("set", <<"m">>, 0, 1, KeyName(TRUE, x), "A")} ELSE {})
             \cup (IF c[x].k # "-" THEN {Op("rem", <<"m">>, 0, 1, KeyName(TRUE, x), "u")} ELSE {})
             \cup (IF c[x].k = "A"
                   THEN {Op("ins", <<"m", KeyName(TRUE, x)>>, i, 1, "", "u") : i \in {0, Len(c[x].e)}}
                        \cup {Op("del", <<"m", KeyName(TRUE, x)>>, i, 1, "", "u") : i \in 0..(Len(c[x].e) - 1)}
                   ELSE {})
             : x \in 1..2 }

(* foreign-edit menu (smaller) *)
FMenu(c) ==
  IF Kind = "x" THEN FMenuX(c)
  ELSE IF Kind = "t" THEN
     {Op("ins", <<"t">>, i, 1, "", "u") : i \in {0, Len(c)}}
     \cup {Op("del", <<"t">>, i, 1, "", "u") : i \in {0, Len(c) - 1} \cap 0..(Len(c) - 1)}
  ELSE IF Kind = "a" THEN
     {Op("ins", <<"a">>, i, 1, "", "u") : i \in {0, Len(c)}}
     \cup {Op("del", <<"a">>, i, 1, "", "u") : i \in {0, Len(c) - 1} \cap 0..(Len(c) - 1)}
     \cup (IF FirstM(c) # 0 THEN {Op("set", <<"a", "#0">>, 0, 1, "k1", "u")} ELSE {})
  ELSE
     {Op("set", <<"m">>, 0, 1, "k1", "u")}
     \cup (IF c[1].k # "-" THEN {Op("rem", <<"m">>, 0, 1, "k1", "u")} ELSE {})
     \cup (IF c[1].k = "A" THEN {Op("ins", <<"m", "k1">>, 0, 1, "", "u")} \cup
                               (IF Len(c[1].e) > 0 THEN {Op("del", <<"m", "k1">>, 0, 1, "", "u")} ELSE {}) ELSE {})

Step(o, r, origin) == [a |-> "uop", op |-> o.op, r |-> r, p |-> o.p, i |-> o.i, n |-> o.n, key |-> o.key, k |-> o.k, o |-> origin]

(* a foreign edit also applies to what the recorded boundaries would show (isolation), and no boundary is exact any more *)
Adjust(st, o, t) == [i \in 1..Len(st) |-> Entry(Apply(st[i].v, o, t), FALSE)]
ForeignAdj(MM, o, t) == [ust |-> Adjust(MM.ust, o, t), rst |-> Adjust(MM.rst, o, t), last |-> MM.last]

RECURSIVE Rep(_, _)
Rep(k, s) == IF k = 0 THEN <<>> ELSE s \o Rep(k - 1, s)
Word(p, j) == Rep(p, <<TRUE>>) \o Rep(j, <<FALSE, TRUE>>) \o <<TRUE, TRUE, FALSE, FALSE>>
Wiggle == Shape = "wiggle"

Done == IF Wiggle THEN nE = MaxE /\ wq = <<>> /\ pend = <<>>
        ELSE nE = MaxE /\ nUR = MaxUR /\ pend = <<>> /\ lastK # "T"

Tracked(o) ==
  /\ nE < MaxE
  /\ Wiggle => (nUR = 0 /\ lastK # "E")
  /\ C' = Apply(C, o, tok) /\ tok' = tok + 2
  /\ M' = Capture(M, C, PredictExtend(M, now, 500), now)
  /\ nE' = nE + 1 /\ slots' = slots + 1 /\ lastK' = "E" /\ prev' = <<>>
  /\ hist' = Append(hist, Step(o, 1, "U"))
  /\ UNCHANGED <<now, nUR, nF, nEmpty, nStop, pend, clean, wq>>

Tick ==
  /\ lastK = "E" /\ nE < MaxE
  /\ now' = now + 600 /\ lastK' = "T"
  /\ hist' = Append(hist, [a |-> "tick", ms |-> 600])
  /\ UNCHANGED <<C, M, tok, nE, nUR, nF, nEmpty, nStop, pend, slots, clean, prev, wq>>

UStop ==
  /\ UseStop /\ nStop = 0 /\ lastK = "E" /\ nE < MaxE
  /\ M' = Stop(M) /\ lastK' = "T" /\ nStop' = 1
  /\ hist' = Append(hist, [a |-> "ustop", r |-> 1])
  /\ UNCHANGED <<C, tok, now, nE, nUR, nF, nEmpty, pend, slots, clean, prev, wq>>

Pop(undo) ==
  LET st  == IF undo THEN M.ust ELSE M.rst
      det == Determined(st, C)
      ret == IF det THEN ExpectRet(st, C) ELSE Len(st) > 0
      C2  == IF det THEN ExpectView(st, C) ELSE IF Len(st) > 0 THEN st[Len(st)].v ELSE C
  IN /\ lastK # "T"
     /\ IF Wiggle THEN nE = MaxE /\ wq # <<>> /\ Head(wq) = undo
                  ELSE nUR < MaxUR /\ (Len(st) > 0 \/ nEmpty = 0)
     /\ wq' = IF Wiggle THEN Tail(wq) ELSE wq
     /\ nEmpty' = IF Len(st) = 0 THEN 1 ELSE nEmpty
     /\ C' = C2
     /\ M' = PopApply(M, undo, C, ret, Len(st) - 1)
     /\ nUR' = nUR + 1 /\ slots' = slots + 1 /\ lastK' = "O"
     /\ prev' = IF undo /\ ret /\ clean THEN <<C>> ELSE <<>>
     /\ hist' = Append(hist, [a |-> IF undo THEN "undo" ELSE "redo", r |-> 1])
     /\ UNCHANGED <<tok, now, nE, nF, nStop, pend, clean>>

ForeignLocal(o) ==
  /\ nF < MaxF /\ lastK # "T"
  /\ C' = Apply(C, o, tok) /\ tok' = tok + 2
  /\ M' = ForeignAdj(M, o, tok)
  /\ nF' = nF + 1 /\ slots' = slots + 1 /\ lastK' = "O" /\ clean' = FALSE /\ prev' = <<>>
  /\ hist' = Append(hist, Step(o, 1, IF nF = 0 THEN "X" ELSE ""))
  /\ UNCHANGED <<now, nE, nUR, nEmpty, nStop, pend, wq>>

(* replica 2 edits (after catching up with replica 1, or concurrently without); delivered to 1 later *)
RemoteEdit(o, synced) ==
  /\ nF < MaxF /\ lastK # "T" /\ pend = <<>>
  /\ pend' = <<o, slots + 1>> /\ nF' = nF + 1 /\ slots' = slots + 1 /\ lastK' = "O"
  /\ hist' = (IF synced THEN Append(hist, [a |-> "sync", f |-> 1, t |-> 2, how |-> "state", sv |-> "own"]) ELSE hist)
             \o << Step(o, 2, "") >>
  /\ UNCHANGED <<C, M, tok, now, nE, nUR, nEmpty, nStop, clean, prev, wq>>

RemoteDeliver ==
  /\ pend # <<>> /\ lastK # "T"
  /\ C' = Apply(C, pend[1], tok) /\ tok' = tok + 2
  /\ M' = ForeignAdj(M, pend[1], tok)
  /\ pend' = <<>> /\ lastK' = "O" /\ clean' = FALSE /\ prev' = <<>>
  /\ hist' = Append(hist, [a |-> "dlv", r |-> 1, u |-> <<pend[2]>>, enc |-> "v1", shape |-> "flat", diff |-> FALSE])
  /\ UNCHANGED <<now, nE, nUR, nF, nEmpty, nStop, slots, wq>>

Next ==
  /\ ~Done
  /\ \/ \E o \in Menu(C) : Tracked(o)
     \/ Tick \/ UStop
     \/ Pop(TRUE) \/ Pop(FALSE)
     \* wiggle: the other origins act while the outer step is undone / redone (after the first call)
     \/ (Wiggle => nUR > 0) /\ \E o \in FMenu(C) : ForeignLocal(o)
     \/ (Wiggle => nUR > 0) /\ \E o \in FMenu(C) : RemoteEdit(o, TRUE)
     \/ ~Wiggle /\ \E o \in {x \in FMenu(C) : x.op \in {"ins", "set"} /\ Len(x.p) = 1} : RemoteEdit(o, FALSE)
     \/ RemoteDeliver

Init ==
  /\ C = C0 /\ M = EmptyMgr /\ tok = 1 /\ now = 1000
  /\ nE = 0 /\ nUR = 0 /\ nF = 0 /\ nEmpty = 0 /\ nStop = 0 /\ lastK = "" /\ pend = <<>> /\ slots = 0
  /\ clean = TRUE /\ prev = <<>> /\ hist = <<>>
  /\ wq \in (IF Wiggle THEN {Word(p, j) : p \in 1..MaxP, j \in 1..MaxW} ELSE {<<>>})

Spec == Init /\ [][Next]_vars

PrintSchedules == Done => PrintT(<<"REPLAY", ToJson(hist)>>)

---------------------------------------------------------------------------
(* Design check of the inverse-law operators on exact (foreign-free) histories *)
AllOk(st) == \A i \in 1..Len(st) : st[i].ok
(* without foreign edits every boundary is exact and every call is determined *)
InvExact == clean => AllOk(M.ust) /\ AllOk(M.rst) /\ Determined(M.ust, C) /\ Determined(M.rst, C)
(* an undo that reverted something can be redone, and redoing restores exactly the content before it *)
InvRoundTrip == (prev # <<>> /\ clean) =>
                   /\ ExpectRet(M.rst, C)
                   /\ ExpectView(M.rst, C) = prev[1]
(* the step the next undo reverts had a visible effect, and steps passed over had none *)
InvNearest == clean /\ ExpectRet(M.ust, C) =>
                 /\ ExpectView(M.ust, C) # C
                 /\ \A i \in (Target(M.ust, C) + 1)..Len(M.ust) : M.ust[i].v = C
(* stacks never hold more entries than steps were captured / calls made *)
InvBounded == Len(M.ust) <= nE + nUR /\ Len(M.rst) <= nUR
(* wiggle: redoing what was just undone and undoing it again returns to the same content (checked through InvRoundTrip at *)
(* every R of the word); the word is consumed completely                                                              *)
InvWord == Wiggle => Len(wq) <= MaxP + 2 * MaxW + 4
=============================================================================
