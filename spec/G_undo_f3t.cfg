CONSTANTS
  Kind = "t"
  MaxE = 3
  MaxUR = 2
  MaxF = 1
  UseStop = FALSE
  Flat = FALSE
  Pre = FALSE
SPECIFICATION Spec
INVARIANTS InvExact InvRoundTrip InvNearest InvBounded PrintSchedules
CHECK_DEADLOCK FALSE
