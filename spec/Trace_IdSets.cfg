SPECIFICATION TSpec
INVARIANT Verdict
VIEW lview
CHECK_DEADLOCK FALSE
