---------------------------- MODULE MC_YataFmt ----------------------------
(***************************************************************************)
(* Generator for rich-text histories: MC_Yata with a scripted prefix       *)
(* (`Script`: the text the authors then work on) followed by FREE          *)
(* operations of the authors on the text root -- insert, delete and        *)
(* FORMAT (every range x key x value) -- with every exchange among the     *)
(* authors and every (merged) delivery order to the observer.              *)
(* The abstract lists are those of MC_Yata (marks are not countable, see   *)
(* MC_Yata!LocalFmt); the meaning of the marks is checked by Trace_Yata    *)
(* (Rich.tla) on what the library recorded.                                *)
(***************************************************************************)
EXTENDS MC_Yata

CONSTANTS FmtKeys,     \* attribute keys
          FmtVals      \* attribute values ("null" clears)

P_ab  == << [a |-> "ins", r |-> 1, c |-> "t", i |-> 0, n |-> 2, k |-> "u", key |-> ""] >>
P_abc == << [a |-> "ins", r |-> 1, c |-> "t", i |-> 0, n |-> 3, k |-> "u", key |-> ""] >>

FreeRich ==
  /\ phase = "A" /\ ops < MaxOps /\ ops >= Len(Script)
  /\ \E r \in Authors :
       LET cn == <<"t", None>>
           v  == Visible(E, S[r], ContKey(cn, ""))
       IN \/ \E i \in 0..Len(v) : LocalIns(r, cn, i, "u")
          \/ dels < MaxDel /\ \E i \in 0..(Len(v) - 1) : LocalDel(r, cn, i)
          \/ \E i \in 0..(Len(v) - 1) : \E n \in 1..(Len(v) - i) :
               \E key \in FmtKeys : \E val \in FmtVals : LocalFmt(r, cn, i, n, key, val)

NextF == Next \/ FreeRich
SpecF == Init /\ [][NextF]_vars
=============================================================================
