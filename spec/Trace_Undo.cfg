SPECIFICATION TSpecX
INVARIANT VerdictX
POSTCONDITION Consumed
CHECK_DEADLOCK FALSE
