-------------------------- MODULE Trace_Snapshot --------------------------
(***************************************************************************)
(* V stage for C13: Trace_Yata plus a handle table H of taken snapshots.   *)
(*   snap     the recorded snapshot value is compared with TakeSnapshot of  *)
(*            the spec state, its encode/decode round trips with itself;    *)
(*            H[h] keeps the spec's view of the replica at that moment.     *)
(*   restore  the public view of the fresh document that received the real  *)
(*            encode_state_from_snapshot output is compared with H[h].view  *)
(*            -- whatever happened to the source replica in between.        *)
(* Implementation-level predictions (exact payload, structure of the fresh  *)
(* document incl. tombstones, wire-level origins) are reported as drift.    *)
(***************************************************************************)
EXTENDS Trace_Yata, Snapshot

VARIABLE H      \* handle -> [r, view, sv, ds, repr, forced]
varsX == <<vars, H>>

NZ(q) == Ids(q) \ {<<x[1], 0>> : x \in Ids(q)}
Untouched(r, o) == WellFormed(E, o) /\ ObsRep(o, S[r].dlv, S[r].ddel) = S[r]

SnapEv ==
  /\ Ev.k = "snap" /\ ~failed
  /\ LET r   == Ev.r
         R   == S[r]
         sm  == NZ(Ev.sm)
         ds  == Ids(Ev.ds)
         chk == << <<"C13_NoFailure", Ev.outcome = "ok">>,
                   <<"C13_SourceUntouched", Untouched(r, Ev.obs)>>,
                   <<"C17_PubAgrees", WellFormed(E, Ev.obs) /\ PubAgrees(E, R, Ev.obs)>>,
                   <<"C13_SnapshotExact", C13_SnapshotExact(R, sm, ds)>>,
                   <<"C13_RoundTrip",
                        /\ C13_RoundTrip(sm, ds, Ev.rt.v1.ok, NZ(Ev.rt.v1.sm), Ids(Ev.rt.v1.ds))
                        /\ C13_RoundTrip(sm, ds, Ev.rt.v2.ok, NZ(Ev.rt.v2.sm), Ids(Ev.rt.v2.ds))>> >>
         dr  == IF Ev.rt.v1.ok /\ Ev.rt.v2.ok /\ ~(Ev.rt.v1.eq /\ Ev.rt.v2.eq)
                THEN {"snapshot-roundtrip-representation"} ELSE {}
         T   == TakeSnapshot(R)
         rec == [r |-> r, view |-> ViewAt(E, R), sv |-> T.sv, ds |-> T.ds, repr |-> Representable(R), forced |-> FALSE]
     IN /\ Record(Failing(chk), dr)
        /\ H' = [h \in DOMAIN H \cup {Ev.h} |-> IF h = Ev.h THEN rec ELSE H[h]]
        /\ cnt' = [cnt EXCEPT !.ev = @ + 1, !.checks = @ + Len(chk)]
  /\ UNCHANGED <<ln0, bid, E, XD, U, SEEN, S, cfg>>

RestoreEv ==
  /\ Ev.k = "restore" /\ ~failed
  /\ LET r    == Ev.r
         R    == S[r]
         ro   == Ev.robs
         hok  == Ev.h \in DOMAIN H /\ H[Ev.h].r = r
         sn   == H[Ev.h]
         base == << <<"C13_SourceUntouched", Untouched(r, Ev.obs)>> >>
         settled == ro.pend = <<>> /\ ro.pds = <<>> /\ ~ro.missing
         sound   == ro.integrity = "ok" /\ ro.c17 = "ok"
         M    == RestoreModel(E, R, [sv |-> sn.sv, ds |-> sn.ds])
         chk  == IF ~hok THEN << <<"C13_NoFailure", FALSE>> >>
                 ELSE IF cfg[r].gc
                 THEN base \o << <<"C13_RefusedOnGc", C13_RefusedOnGc(Ev.oc)>> >>
                 ELSE base \o << <<"C13_NoFailure", Ev.oc = "ok" /\ Ev.wire = "" /\ Ev.apply = "ok">> >>
                      \o (IF sn.repr /\ ~sn.forced THEN << <<"C13_RestoreExact", C13_RestoreExact(sn.view, ro.pub, settled, sound)>> >>
                          ELSE <<>>)
         dr   == IF ~hok \/ cfg[r].gc \/ ~sn.repr \/ sn.forced \/ Ev.oc # "ok" \/ Ev.wire # "" THEN {}
                 ELSE (IF InsIds(Ev.upd.ins) = {x \in Have(R) : Below(sn.sv, x)} /\ Ids(Ev.upd.del) = sn.ds
                       THEN {} ELSE {"restore-payload"})
                      \cup (IF WireConsistent(Ev.upd.ins) THEN {} ELSE {"restore-wire"})
                      \cup (IF /\ \A c \in DOMAIN M.lst \cup DOMAIN ro.lst : Lst(M.lst, c) = Lst(ro.lst, c)
                               /\ Ids(ro.dead) = M.dead /\ Ids(ro.gone) = M.gone
                            THEN {} ELSE {"restore-structure"})
     IN /\ Record(Failing(chk), dr)
        /\ cnt' = [cnt EXCEPT !.ev = @ + 1, !.checks = @ + Len(chk)]
  /\ UNCHANGED <<ln0, bid, E, XD, U, SEEN, S, cfg, H>>

(* a forced collection (`txn.gc`) on a document whose collector is off destroys content the snapshot refers to: the
   property's premise "garbage collection disabled" no longer holds for the handles of that replica; only
   no-failure is demanded from then on *)
ForcedMark ==
  IF Ev.call.a = "gcf"
  THEN [h \in DOMAIN H |-> IF H[h].r = Ev.r THEN [H[h] EXCEPT !.forced = TRUE] ELSE H[h]]
  ELSE H

TInitX == TInit /\ H = EmptyFn

TNextX == /\ l <= Len(Rec)
          /\ l' = l + 1
          /\ \/ (Reset /\ H' = EmptyFn)
             \/ (Skip /\ UNCHANGED H)
             \/ (Local /\ H' = ForcedMark)
             \/ (Deliver /\ UNCHANGED H)
             \/ (SvOfUpdate /\ UNCHANGED H)
             \/ (Sync /\ UNCHANGED H)
             \/ (Nondet /\ UNCHANGED H)
             \/ (Crash /\ UNCHANGED H)
             \/ SnapEv
             \/ RestoreEv

TSpecX == TInitX /\ [][TNextX]_varsX
=============================================================================
