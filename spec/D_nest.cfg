CONSTANTS
  Authors = {1, 2}
  Obs = 8
  MaxOps = 3
  SeqRoots = {"a"}
  MapKeys = {"k1"}
  Nest = TRUE
  MaxDel = 1
  Merge = FALSE
  Script <- NoScript
  Dups = FALSE
SPECIFICATION Spec
INVARIANTS InvOnce InvPlaced InvBetween InvDepClosed InvNothingLost InvPending InvConverge InvPairOrder InvClosed 
CHECK_DEADLOCK FALSE
VIEW view
