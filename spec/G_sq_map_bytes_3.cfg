CONSTANTS
  Family = "map"
  Unit = "bytes"
  MaxOps = 3
  Shape <- NoShape
SPECIFICATION Spec
INVARIANTS InvWellFormed InvUniqueTags PrintSchedules
CHECK_DEADLOCK FALSE
