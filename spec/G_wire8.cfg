CONSTANTS
  Mode = "codec"
  Alphabet = {0, 1, 2, 5}
  MaxLen = 8
SPECIFICATION Spec
INVARIANTS InvCodecRoundTrip PrintSchedules
CHECK_DEADLOCK FALSE
