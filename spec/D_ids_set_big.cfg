SPECIFICATION Spec
INVARIANTS InvLaws InvCanon InvProg InvKind
CHECK_DEADLOCK FALSE
VIEW view
CONSTANTS
  Kind = "set"
  Clients = {1, 2}
  U = 4
  AttrLists <- AttrsSet
  EmptyAt = {1}
  MaxOps = 3
  Pairs = TRUE
  FiMax = 0
