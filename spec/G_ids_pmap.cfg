SPECIFICATION Spec
INVARIANTS PrintSchedules
CHECK_DEADLOCK FALSE
VIEW view
CONSTANTS
  Kind = "map"
  Clients = {1}
  U = 3
  AttrLists <- AttrsMap
  EmptyAt = {}
  MaxOps = 3
  Pairs = TRUE
  FiMax = 0
