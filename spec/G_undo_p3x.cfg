CONSTANTS
  Kind = "x"
  MaxE = 3
  MaxUR = 3
  MaxF = 0
  UseStop = FALSE
  Flat = FALSE
  Pre = TRUE
SPECIFICATION Spec
INVARIANTS InvExact InvRoundTrip InvNearest InvBounded PrintSchedules
CHECK_DEADLOCK FALSE
