CONSTANTS
  Kind = "a"
  MaxE = 2
  MaxUR = 0
  MaxF = 1
  UseStop = FALSE
  Flat = FALSE
  Pre = TRUE
  Shape = "wiggle"
  MaxP = 2
  MaxW = 2
SPECIFICATION Spec
INVARIANTS InvExact InvRoundTrip InvNearest InvBounded InvWord PrintSchedules
CHECK_DEADLOCK FALSE
