---------------------------- MODULE Trace_Undo ----------------------------
(***************************************************************************)
(* V stage of C12: validates traces recorded by the `undo` extension of the *)
(* Yata executor (harness/src/ext/undo.rs).  The base trace actions of      *)
(* Trace_Yata validate every state change; this module conjoins the         *)
(* abstract undo manager H.M of Undo.tla and the C12 predicates.            *)
(* Undo and redo are ordinary local transactions (event kind "loc" with     *)
(* call.a = "undo" / "redo"): UPop evaluates the base step checks on them   *)
(* together with the C12 predicates.                                        *)
(* Every event carries uc (manager configuration), us / rs (stack lengths), *)
(* uv (content of the manager replica's root types by value), uclk, croot.  *)
(* C12 violations found next to a base action are collected in H.v and      *)
(* merged into the verdict (VerdictX).                                      *)
(***************************************************************************)
EXTENDS Trace_Yata, Undo

VARIABLE H      \* [M : abstract manager, cur : root -> content of the manager's replica, trk : tracked element ids,
                \*  pops : undo/redo calls that changed the document, v / d : C12 violations / drift found by conjoined parts]
xvars == <<vars, H>>

EmptyView == [t |-> "\"\"", a |-> "[]", m |-> "{}", x |-> "X[]"]
H0(keep) == [M |-> EmptyMgr, cur |-> EmptyView, trk |-> {}, pops |-> 0, v |-> keep.v, d |-> keep.d]

OriginOf(call) == IF "o" \in DOMAIN call THEN call.o ELSE ""
IsPop == Ev.call.a \in {"undo", "redo"}

(* "all replicas still converge because undo and redo are ordinary replicated operations": the base predicates are   *)
(* evaluated on undo / redo transactions like on any other; their failures are ALSO attributed to C12: any base     *)
(* check of an undo / redo transaction (C12_Replicated), and convergence / structure / follower equality of every   *)
(* later step of a behaviour in which an undo or redo changed the document (C12_Converge)                           *)
ConvNames == {"C01_Converge", "C07_FollowerEqual", "C04_Placed", "C04_Once", "C05_DeadExact", "C01_NoFailure",
              "C03_NoFailure", "C17_PubAgrees", "C01_DepClosed"}
NewlyFailed == {x[2] : x \in viol' \ viol}
ConvViol == IF H.pops > 0 /\ NewlyFailed \cap ConvNames # {} THEN {<<bid, "C12_Converge", l - ln0>>} ELSE {}

Mirror(M1, aftV) == IF ShapeOk(M1, Ev.us, Ev.rs) THEN M1 ELSE Resync(M1, Ev.us, Ev.rs, aftV)
ShapeDrift(M1) == IF ShapeOk(M1, Ev.us, Ev.rs) THEN {} ELSE {<<bid, "undo-stack-shape", l - ln0>>}

(* conjoined to Trace_Yata!Local for every local transaction that is not an undo / redo call *)
HLocal ==
  LET r  == Ev.r
      us == Ev.upd.ins
      R  == S[r]
      R2 == ObsRep(Ev.obs, R.dlv \cup InsIds(us), R.ddel \cup Ids(Ev.upd.del) \cup ImplicitDel(us))
      ok == WellFormed(Extend(us), Ev.obs)
      changed == Have(R2) # Have(R) \/ (R2.dead \cup R2.gone) # (R.dead \cup R.gone)
      uc == Ev.uc
      scope == Range(uc.scope)
      atMgr == r = uc.r
      M == H.M
      curV == ViewOf(H.cur, scope)
      aftV == ViewOf(Ev.uv, scope)
      tracked == atMgr /\ OriginOf(Ev.call) = uc.origin
      \* a multi-operation transaction (call.a = "multi") has no single container: captured iff a tracked type changed
      inScope == IF Ev.call.a = "multi" THEN ScopeChanged(R, R2, Ev.croot, scope) ELSE InScope(Ev.croot, scope, Ev.cont)
      captured == ok /\ tracked /\ changed /\ inScope
      foreign == ok /\ atMgr /\ ~tracked /\ ScopeChanged(R, R2, Ev.croot, scope)
      extend == Ev.us = Len(M.ust)
      M1 == IF captured THEN Capture(M, curV, extend, Ev.uclk)
            ELSE IF foreign THEN ForeignEdit(M)
            ELSE M
      gd == IF captured /\ extend # PredictExtend(M, Ev.uclk, uc.timeout) THEN {<<bid, "undo-grouping", l - ln0>>} ELSE {}
  IN H' = [M |-> Mirror(M1, aftV), cur |-> Ev.uv,
           trk |-> IF tracked THEN H.trk \cup InsIds(us) ELSE H.trk,
           pops |-> H.pops, v |-> H.v \cup ConvViol, d |-> H.d \cup ShapeDrift(M1) \cup gd]

(* undo / redo call: the generic part of Trace_Yata!Local (step checks, local checks, follower checks) + C12 *)
UPop ==
  /\ Ev.k = "loc" /\ ~failed /\ IsPop
  /\ LET r  == Ev.r
         us == Ev.upd.ins
         E2 == Extend(us)
         R  == S[r]
         R2 == ObsRep(Ev.obs, R.dlv \cup InsIds(us), R.ddel \cup Ids(Ev.upd.del) \cup ImplicitDel(us))
         ok == WellFormed(E2, Ev.obs)
         changed == Have(R2) # Have(R) \/ (R2.dead \cup R2.gone) # (R.dead \cup R.gone)
         newIds == InsIds(us)
         undo == Ev.call.a = "undo"
         \* what an undo / redo removes counts as explicit removals (input of the convergence predicate)
         XD2 == XD \cup Ids(Ev.upd.del)
         fresh == {us[i].id : i \in FreshIdx(us)}
         SEEN2 == [x \in DOMAIN SEEN \cup fresh |->
                     IF x \in DOMAIN SEEN THEN SEEN[x]
                     ELSE Range(Lst(R.lst, us[CHOOSE i \in FreshIdx(us) : us[i].id = x].cont))]
         uc == Ev.uc
         scope == Range(uc.scope)
         atMgr == r = uc.r
         M == H.M
         curV == ViewOf(H.cur, scope)
         aftV == ViewOf(Ev.uv, scope)
         st == IF undo THEN M.ust ELSE M.rst
         nA == IF undo THEN Ev.us ELSE Ev.rs
         M1 == PopApply(M, undo, curV, Ev.ret, nA)
         base == IF ~ok THEN << <<"C04_Placed", FALSE>> >>
                 ELSE StepChecks(E2, XD2, SEEN2, r, R, R2, Ev.obs, FALSE)
                      \o << <<"C03_NoFailure", Ev.outcome = "ok">>,
                            <<"C09_WireConsistent", WireConsistent(us) /\ Ev.wire = "">>,
                            <<"C04_FreshIds", \A i \in RealUnits(us) : us[i].id \notin DOMAIN E /\ us[i].id[1] = r>>,
                            <<"C04_AllIntegrated", newIds \subseteq Have(R2) /\ R2.pend = R.pend>>,
                            <<"C07_EmitIffChanged", Ev.nev = (IF changed THEN <<1, 1>> ELSE <<0, 0>>)>> >>
                      \o (IF Ev.hasfol THEN FolChecks(E2, R2, Ev.obs, Ev.fol.v1) \o FolChecks(E2, R2, Ev.obs, Ev.fol.v2) ELSE <<>>)
         c12 == << <<"C12_NoFailure", Ev.outcome = "ok">>,
                   <<"C12_Replicated", \A i \in 1..Len(base) : base[i][2]>>,
                   <<"C12_AtManager", atMgr>> >>
                \o (IF ok /\ atMgr
                    THEN << <<"C12_InverseUndo", ~undo \/ C12_Inverse(st, curV, aftV, nA)>>,
                            <<"C12_InverseRedo", undo \/ C12_Inverse(st, curV, aftV, nA)>>,
                            <<"C12_OneStep", C12_OneStep(st, curV, aftV)>>,
                            <<"C12_ReturnValue", C12_ReturnValue(st, curV, Ev.ret)>>,
                            <<"C12_ForeignKept", C12_ForeignKept(E2, R, R2, H.trk)>>,
                            <<"C12_UntrackedUntouched",
                                 /\ C12_UntrackedUntouched(E2, R, R2, Ev.croot, scope)
                                 /\ \A x \in DOMAIN H.cur \ scope : Ev.uv[x] = H.cur[x]>> >>
                    ELSE <<>>)
         chk == base \o c12
         dr == (IF ok /\ ~PlacementPredicted(E2, R, R2) THEN {"placement"} ELSE {})
               \cup (IF ok /\ ~StashTight(R2) THEN {"stash-not-tight"} ELSE {})
               \cup (IF ~ShapeOk(M1, Ev.us, Ev.rs) THEN {"undo-stack-shape"} ELSE {})
     IN /\ Record(Failing(chk), dr)
        /\ E' = E2 /\ XD' = XD2 /\ SEEN' = SEEN2
        /\ U' = Append(U, [ins |-> InsIds(us), del |-> Ids(Ev.upd.del)])
        /\ S' = [S EXCEPT ![r] = R2]
        /\ cnt' = [cnt EXCEPT !.ev = @ + 1, !.checks = @ + Len(chk)]
        /\ H' = [H EXCEPT !.M = Mirror(M1, aftV), !.cur = Ev.uv, !.trk = @ \cup newIds,
                          !.pops = IF changed THEN @ + 1 ELSE @]
  /\ UNCHANGED <<ln0, bid, cfg>>

(* a remote payload applied to replica t (the harness applies it in a transaction WITHOUT origin): if it changes a   *)
(* tracked type of the manager's replica it is a foreign edit -- unless the manager tracks origin-less transactions  *)
(* (uc.origin = ""), in which case it is captured like a local edit                                                 *)
HRemote(t, o, us) ==
  LET uc == Ev.uc
      scope == Range(uc.scope)
      R  == S[t]
      R2 == [lst |-> o.lst, dead |-> Ids(o.dead)]
      hit == t = uc.r /\ ScopeChanged(R, R2, Ev.croot, scope)
      tracked == uc.origin = ""
      curV == ViewOf(H.cur, scope)
      aftV == ViewOf(Ev.uv, scope)
      M1 == IF ~hit THEN H.M
            ELSE IF tracked THEN Capture(H.M, curV, Ev.us = Len(H.M.ust), Ev.uclk)
            ELSE ForeignEdit(H.M)
  IN H' = [M |-> Mirror(M1, aftV), cur |-> Ev.uv, pops |-> H.pops,
           trk |-> IF t = uc.r /\ tracked THEN H.trk \cup InsIds(us) ELSE H.trk,
           v |-> H.v \cup ConvViol, d |-> H.d \cup ShapeDrift(M1)]

Tick ==
  /\ Ev.k = "tick" /\ ~failed
  /\ cnt' = [cnt EXCEPT !.ev = @ + 1]
  /\ UNCHANGED <<ln0, bid, E, XD, U, SEEN, S, cfg, failed, viol, drift, H>>

UStop ==
  /\ Ev.k = "ustop" /\ ~failed
  /\ H' = [H EXCEPT !.M = Stop(@)]
  /\ cnt' = [cnt EXCEPT !.ev = @ + 1]
  /\ UNCHANGED <<ln0, bid, E, XD, U, SEEN, S, cfg, failed, viol, drift>>

(* a step that was not applicable to the current state: nothing happened, its update slot is empty *)
Unop ==
  /\ Ev.k = "unop" /\ ~failed
  /\ U' = Append(U, [ins |-> {}, del |-> {}])
  /\ cnt' = [cnt EXCEPT !.ev = @ + 1]
  /\ UNCHANGED <<ln0, bid, E, XD, SEEN, S, cfg, failed, viol, drift, H>>

(* repeated executions of the same schedule gave different outcomes (content by value, return values, stack lengths) *)
UNondet ==
  /\ Ev.k = "nondet" /\ ~failed
  /\ Record({"C12_Deterministic"}, {})
  /\ UNCHANGED <<ln0, bid, E, XD, U, SEEN, S, cfg, cnt, H>>

(* the process executing this behaviour was killed by a signal (memory fault inside the library) *)
UCrash ==
  /\ Ev.k = "crash" /\ ~failed
  /\ Record({"C12_NoFailure"}, {})
  /\ UNCHANGED <<ln0, bid, E, XD, U, SEEN, S, cfg, cnt, H>>

TNextX == /\ l <= Len(Rec)
          /\ l' = l + 1
          /\ \/ (Reset /\ H' = H0(H))
             \/ (Skip /\ UNCHANGED H)
             \/ (Local /\ ~IsPop /\ HLocal)
             \/ UPop
             \/ (Deliver /\ HRemote(Ev.r, Ev.obs, Ev.upd.ins))
             \/ (SvOfUpdate /\ UNCHANGED H)
             \/ (Sync /\ HRemote(Ev.t, Ev.obs, Ev.upd.ins))
             \/ UNondet \/ Tick \/ UStop \/ Unop \/ UCrash

TSpecX == TInit /\ H = [M |-> EmptyMgr, cur |-> EmptyView, trk |-> {}, pops |-> 0, v |-> {}, d |-> {}] /\ [][TNextX]_xvars

VerdictX == l = Len(Rec) + 1 =>
              PrintT(<<"VERDICT", ToJson([viol |-> viol \cup H.v, drift |-> drift \cup H.d, cnt |-> cnt, lines |-> Len(Rec)])>>)
=============================================================================
