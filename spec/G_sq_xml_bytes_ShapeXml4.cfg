CONSTANTS
  Family = "xml"
  Unit = "bytes"
  MaxOps = 4
  Shape <- ShapeXml4
SPECIFICATION Spec
INVARIANTS InvWellFormed InvUniqueTags PrintSchedules
CHECK_DEADLOCK FALSE
