CONSTANTS
  Authors = {1, 2}
  Obs = 8
  MaxOps = 3
  SeqRoots = {}
  MapKeys = {"k1"}
  Nest = TRUE
  MaxDel = 1
  Merge = FALSE
  Script <- NoScript
  Dups = FALSE
  MaxSnaps = 2
SPECIFICATION SpecS
INVARIANTS InvRepresentable InvRestore InvRestoreStruct InvStableBelow
CONSTRAINT OnlyA
CHECK_DEADLOCK FALSE
VIEW viewS
