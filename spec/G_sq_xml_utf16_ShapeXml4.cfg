CONSTANTS
  Family = "xml"
  Unit = "utf16"
  MaxOps = 4
  Shape <- ShapeXml4
SPECIFICATION Spec
INVARIANTS InvWellFormed InvUniqueTags PrintSchedules
CHECK_DEADLOCK FALSE
