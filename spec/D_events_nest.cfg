CONSTANTS
  Authors = {1, 2}
  Obs = 8
  MaxOps = 3
  SeqRoots = {"a"}
  MapKeys = {"k1"}
  Nest = TRUE
  MaxDel = 1
  Merge = FALSE
  Dups = FALSE
  Script <- NoScript
  AddedBy = "insert_set"
SPECIFICATION SpecE
INVARIANTS InvSeqScript InvKeyScript InvFires InvUntouchedEmpty
CHECK_DEADLOCK FALSE
VIEW viewE
