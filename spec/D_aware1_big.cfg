CONSTANTS
  Owners = {1, 2}
  Setters = {1}
  Obs = {8, 9}
  Val = {"a", "b"}
  FirstVal = "a"
  MaxClock = 4
  MaxUpd = 3
  MaxSteps = 1000
  Dups = TRUE
SPECIFICATION Spec
INVARIANTS InvWellFormed InvMonotone InvNoLower InvOwnKept InvLocalMonotone InvIdempotent InvOrder InvUniqueValue InvMaximum
CHECK_DEADLOCK FALSE
VIEW view
