------------------------------- MODULE Rich -------------------------------
(***************************************************************************)
(* Rich text under replication: the abstract meaning of formatting marks   *)
(* and of the automatic formatting clean-up (Options::cleanup_formatting). *)
(*                                                                         *)
(* A formatting mark is a listed element of kind "fmt" carrying            *)
(*   fk : STRING   attribute key                                           *)
(*   fv : STRING   JSON text of the value; "null" clears the key           *)
(* Marks are never visible themselves (Yata!Countable).  What a reader     *)
(* sees (Text::diff / get_string) is Render: the visible countable units   *)
(* of the container, each with the attributes in force at its position --  *)
(* obtained by scanning the list left to right over the NON-deleted marks. *)
(* Tombstoned marks have no meaning: that is what makes the clean-up       *)
(* (deleting marks the library considers redundant) a legal optimisation,  *)
(* and what the predicates below demand of it.                             *)
(*                                                                         *)
(* Attributes are sets of <<key, value>> pairs with at most one pair per   *)
(* key.                                                                    *)
(***************************************************************************)
EXTENDS Yata

IsMark(E, x) == E[x].kind = "fmt"
Marks(E, S) == {x \in S : IsMark(E, x)}
SetAttr(A, k, v) == {p \in A : p[1] # k} \cup (IF v = "null" THEN {} ELSE {<<k, v>>})
AttrOf(A, k) == IF \E p \in A : p[1] = k THEN (CHOOSE p \in A : p[1] = k)[2] ELSE "null"

(* <<unit id, attributes>> of the visible countable units of list s, given the tombstone set *)
RECURSIVE RenderFrom(_, _, _, _, _)
RenderFrom(E, s, dead, i, A) ==
  IF i > Len(s) THEN <<>>
  ELSE LET x == s[i] IN
       IF x \in dead THEN RenderFrom(E, s, dead, i + 1, A)
       ELSE IF IsMark(E, x) THEN RenderFrom(E, s, dead, i + 1, SetAttr(A, E[x].fk, E[x].fv))
       ELSE << <<x, A>> >> \o RenderFrom(E, s, dead, i + 1, A)
Render(E, s, dead) == RenderFrom(E, s, dead, 1, {})
RenderOf(E, R, c) == Render(E, Lst(R.lst, c), R.dead)
Marked(E, s) == \E i \in 1..Len(s) : IsMark(E, s[i])
(* sequence containers that hold at least one mark (everywhere else Render is Visible with empty attributes) *)
MarkedConts(E, R) == {c \in DOMAIN R.lst : ~Keyed(E, R.lst[c]) /\ Marked(E, R.lst[c])}

---------------------------------------------------------------------------
(* Property-level predicates.                                              *)
(*                                                                         *)
(* Reading (DESIGN section 12, "rich"): the deletions a cleaning replica   *)
(* performs are OPERATIONS of that replica -- they are emitted in its      *)
(* update events and travel in its state exports.  "The same set of        *)
(* updates" (Yata!SameInput) therefore counts them (the trace module adds  *)
(* them to XD and to the cleaning replica's own delivered deletions).      *)

(* replicas that received the same input render identically, attributes included *)
C01_RenderConverge(E, XD, A, B) ==
  (SameInput(XD, A, B) /\ Settled(A) /\ Settled(B)) =>
     \A c \in MarkedConts(E, A) \cup MarkedConts(E, B) :
        (ContReachable(E, A, c) \/ ContReachable(E, B, c)) => RenderOf(E, A, c) = RenderOf(E, B, c)

(* the clean-up deletes formatting marks only, and what is rendered with the cleaned marks CL tombstoned *)
(* equals what is rendered with them alive: the clean-up never changes what a reader sees              *)
C01_CleanupInvisible(E, R, CL) ==
  /\ \A x \in CL : IsMark(E, x)
  /\ \A c \in DOMAIN R.lst :
       (Range(R.lst[c]) \cap CL # {}) => Render(E, R.lst[c], R.dead) = Render(E, R.lst[c], R.dead \ CL)

(* sequential meaning of the local rich-text calls in ANY replicated state (tombstones, concurrent marks    *)
(* around): RB / RA = Render of the container before / after the call, new = ids the call created          *)
FmtValue(v) == IF v = "null" THEN "null" ELSE "\"" \o v \o "\""
C03_RichInsert(RB, RA, i, new) ==
  LET k == Len(RA) - Len(RB)
      inherited == IF i = 0 THEN {} ELSE RB[i][2]
  IN /\ k > 0 /\ i <= Len(RB)
     /\ SubSeq(RA, 1, i) = SubSeq(RB, 1, i)
     /\ SubSeq(RA, i + k + 1, Len(RA)) = SubSeq(RB, i + 1, Len(RB))
     /\ \A j \in (i + 1)..(i + k) : RA[j][1] \in new /\ RA[j][2] = inherited
(* insert_with_attributes: the new units carry EXACTLY the given attribute (nothing inherited), the rest is unchanged *)
C03_RichInsertWith(RB, RA, i, new, key, v) ==
  LET k == Len(RA) - Len(RB)
  IN /\ k > 0 /\ i <= Len(RB)
     /\ SubSeq(RA, 1, i) = SubSeq(RB, 1, i)
     /\ SubSeq(RA, i + k + 1, Len(RA)) = SubSeq(RB, i + 1, Len(RB))
     /\ \A j \in (i + 1)..(i + k) : RA[j][1] \in new /\ RA[j][2] = SetAttr({}, key, FmtValue(v))
C03_RichDelete(RB, RA, i, n) ==
  /\ i + n <= Len(RB)
  /\ RA = SubSeq(RB, 1, i) \o SubSeq(RB, i + n + 1, Len(RB))
C03_RichFormat(RB, RA, i, n, key, v) ==
  /\ i + n <= Len(RB)
  /\ RA = [j \in 1..Len(RB) |-> IF j > i /\ j <= i + n THEN <<RB[j][1], SetAttr(RB[j][2], key, FmtValue(v))>> ELSE RB[j]]

---------------------------------------------------------------------------
(* The stronger reading, which the clean-up algorithm (the library's and Yjs') does not satisfy and   *)
(* which the trace module reports as DRIFT only: clean-up deletions are NOT input, and the tombstones *)
(* a replica holds only because of somebody's clean-up (CLall) stay invisible for ever.  A mark that  *)
(* was redundant when it was cleaned (overwritten by a later duplicate in the same gap) becomes       *)
(* significant when the overwriting mark is deleted by a concurrent format call that had not seen it. *)
StrongCleanupInvisible(E, R, CLall) ==
  \A c \in DOMAIN R.lst :
     (Range(R.lst[c]) \cap R.dead \cap CLall # {}) =>
         Render(E, R.lst[c], R.dead) = Render(E, R.lst[c], R.dead \ CLall)
StrongRenderConverge(E, XDU, A, B) ==
  (SameInput(XDU, A, B) /\ Settled(A) /\ Settled(B)) =>
     \A c \in MarkedConts(E, A) \cup MarkedConts(E, B) :
        (ContReachable(E, A, c) \/ ContReachable(E, B, c)) => RenderOf(E, A, c) = RenderOf(E, B, c)

---------------------------------------------------------------------------
(* Transcription of the clean-up algorithm (transaction.rs) over a list s of a text container.       *)
(* `dead` = tombstones BEFORE the clean-up; every operator returns the set of marks it deletes.       *)
LiveMark(E, dead, x) == x \notin dead /\ IsMark(E, x)
LiveUnit(E, dead, x) == x \notin dead /\ ~IsMark(E, x)

(* index of the first live countable unit at or after i (Len+1 if none) *)
RECURSIVE GapEnd(_, _, _, _)
GapEnd(E, s, dead, i) == IF i > Len(s) \/ LiveUnit(E, dead, s[i]) THEN i ELSE GapEnd(E, s, dead, i + 1)
(* index of the last live countable unit at or before i (0 if none) *)
RECURSIVE GapStart(_, _, _, _)
GapStart(E, s, dead, i) == IF i < 1 \/ LiveUnit(E, dead, s[i]) THEN i ELSE GapStart(E, s, dead, i - 1)

(* cleanup_fmt_gap_contextless(item at index i): walk right to the end of the gap, then back to its start; *)
(* of the live marks of one key only the right-most is kept                                                 *)
CleanContextless(E, s, dead, i) ==
  LET hi == GapEnd(E, s, dead, i + 1) - 1
      lo == GapStart(E, s, dead, hi) + 1
  IN {s[j] : j \in {j \in lo..hi : /\ LiveMark(E, dead, s[j])
                                   /\ \E k \in (j + 1)..hi : LiveMark(E, dead, s[k]) /\ E[s[k]].fk = E[s[j]].fk}}

(* cleanup_fmt_gap(start at index i, start_attrs A0): the gap runs from i up to the next live countable unit; *)
(* a live mark is deleted when it is not the right-most of its key in the gap or repeats the value in force   *)
(* at the start of the gap                                                                                    *)
CleanGap(E, s, dead, i, A0) ==
  LET hi == GapEnd(E, s, dead, i) - 1
  IN {s[j] : j \in {j \in i..hi : /\ LiveMark(E, dead, s[j])
                                  /\ \/ \E k \in (j + 1)..hi : LiveMark(E, dead, s[k]) /\ E[s[k]].fk = E[s[j]].fk
                                     \/ AttrOf(A0, E[s[j]].fk) = E[s[j]].fv}}

(* cleanup_text_fmt: `start` is moved onto every live countable unit, where cleanup_fmt_gap stops at once: *)
(* only the gap at the head of the list is ever cleaned by this path (same in Yjs cleanupYTextFormatting), *)
(* and only when the list has a live countable unit at all                                                *)
CleanText(E, s, dead) == IF GapEnd(E, s, dead, 1) > Len(s) THEN {} ELSE CleanGap(E, s, dead, 1, {})

(* TransactionMut::cleanup_fmt for one container: ins / del = units the transaction inserted / deleted (before *)
(* the clean-up).  A surviving inserted mark asks for the whole-type pass only.  Otherwise the delete set is    *)
(* walked in id order (client, clock): every deleted countable unit met BEFORE the first deleted mark of the    *)
(* container gets the contextless pass, a deleted mark asks for the whole-type pass (which runs last).  The    *)
(* passes run one after the other on the mutated list: marks deleted by one pass are tombstones for the next.  *)
IdBefore(x, y) == x[1] < y[1] \/ (x[1] = y[1] /\ x[2] < y[2])
RECURSIVE CleanEach(_, _, _, _)
CleanEach(E, s, dead, todo) ==
  IF todo = {} THEN {}
  ELSE LET j == CHOOSE j \in todo : \A k \in todo : j <= k
           d == CleanContextless(E, s, dead, j)
       IN d \cup CleanEach(E, s, dead \cup d, todo \ {j})
CleanupFmt(E, s, dead, ins, del) ==
  LET insTrig  == \E i \in 1..Len(s) : s[i] \in ins /\ LiveMark(E, dead, s[i])
      delMarks == {x \in Range(s) \cap del : IsMark(E, x)}
      ctx      == IF insTrig THEN {}
                  ELSE {i \in 1..Len(s) : /\ s[i] \in del /\ ~IsMark(E, s[i])
                                          /\ \A m \in delMarks : IdBefore(s[i], m)}
      pass1    == CleanEach(E, s, dead, ctx)
      pass2    == IF insTrig \/ delMarks # {} THEN CleanText(E, s, dead \cup pass1) ELSE {}
  IN IF ~Marked(E, s) THEN {} ELSE pass1 \cup pass2
=============================================================================
