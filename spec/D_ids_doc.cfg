SPECIFICATION Spec
INVARIANTS InvDoc
CHECK_DEADLOCK FALSE
VIEW view
CONSTANTS
  MaxOps = 5
  MaxLen = 2
