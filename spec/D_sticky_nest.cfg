CONSTANTS
  Authors = {1, 2}
  Obs = 8
  MaxOps = 2
  SeqRoots = {"a"}
  MapKeys = {}
  Nest = TRUE
  MaxDel = 1
  Merge = FALSE
  Script <- NoScript
  Dups = FALSE
  MaxSticky = 1
SPECIFICATION SpecS
INVARIANTS InvGapAtCreation InvInRange InvGapMeaning InvSameGap InvStickyConverge
CHECK_DEADLOCK FALSE
VIEW viewS
