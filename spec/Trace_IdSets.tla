---------------------------- MODULE Trace_IdSets ----------------------------
(***************************************************************************)
(* V stage of C16: validates traces recorded from real IdSet / IdMap       *)
(* values (and from documents) against the set algebra of IdSets.tla.      *)
(* For every event the abstract result is recomputed with the spec         *)
(* operators from the abstract operands (never from recorded data) and the *)
(* C16_* predicates are evaluated on the recorded concrete representation. *)
(*                                                                         *)
(* Registers a, b hold STACKS of abstract values: a `step` event at depth  *)
(* d applies its operation to the value at depth d-1 (the traces of the    *)
(* `seq` family are trie walks over all construction programs: every       *)
(* program is one event, its parent program is on the stack).              *)
(* `seen` maps every abstract value met in the behaviour to the first      *)
(* recorded representation / encodings, so that different construction     *)
(* paths of the same value are compared with each other.                   *)
(* A violating event adds <<bid, set of failed predicates, n, ref>> to      *)
(* `viol` (n = event number within the behaviour, ref = event of the       *)
(* representation it was compared with); events whose operand already      *)
(* failed are skipped (not counted in cnt.ev).  `drift` counts, per        *)
(* behaviour and kind, recorded differences the property does not demand.  *)
(* The cfg uses VIEW lview: states are identified by the line counter      *)
(* (every state of a trace validation has its own line).                   *)
(***************************************************************************)
EXTENDS IdSets, Json, IOUtils, TLC

Rec == ndJsonDeserialize(IOEnv.TRACE)

VARIABLES l,      \* next trace line
          bid,    \* current behaviour
          probe,  \* points on which contains() was asked
          stk,    \* [a, b] -> sequence of abstract values (depth 0 first)
          bad,    \* [a, b] -> sequence of BOOLEAN: that value's own checks failed
          seen,   \* <<kind, value>> -> [rep, enc1, enc2] first recorded
          dl,     \* doc family: replica -> recorded element list (ids, tombstones included)
          dd,     \* doc family: replica -> ids deleted so far (by the hook's report)
          de,     \* doc family: ids of embedded maps (their child unit, the next clock, dies with them)
          viol, drift, cnt
vars == <<l, bid, probe, stk, bad, seen, dl, dd, de, viol, drift, cnt>>

Ev == Rec[l]
lview == l
EmptyFn == <<>>
MaxViol == 5000     \* violating events kept per validated file; beyond that one C16_TooManyViolations entry
Top(s) == s[Len(s)]
Failing(chk) == {chk[i][1] : i \in {j \in 1..Len(chk) : ~chk[j][2]}}
RecordR(badp, dr, ref) ==      \* ref = event number of the representation compared with (-1: none)
  /\ viol' = IF badp = {} THEN viol          \* a sequence: appending needs no comparison of entries
             ELSE IF Len(viol) < MaxViol THEN Append(viol, <<bid, badp, Ev.n, ref>>)
             ELSE IF Len(viol) = MaxViol THEN Append(viol, <<"", {"C16_TooManyViolations"}, 0, -1>>)
             ELSE viol
  /\ drift' = LET ks == {<<bid, d>> : d \in dr}
              IN [k \in DOMAIN drift \cup ks |->
                    IF k \notin ks THEN drift[k]
                    ELSE IF k \in DOMAIN drift THEN [drift[k] EXCEPT !.c = @ + 1]
                    ELSE [n |-> Ev.n, c |-> 1]]
Record(badp, dr) == RecordR(badp, dr, -1)
Count(chk) == cnt' = [cnt EXCEPT !.ev = @ + 1, !.checks = @ + Len(chk)]
Skipped == UNCHANGED <<viol, drift, cnt, seen>>

---------------------------------------------------------------------------
(* checks of one recorded value observation o against the abstract value v *)
Key(o, v) == <<o.kind, v>>
OnlyAttrOrder(o, first) ==     \* same ranges and attribute sets, attributes listed in another order
  o.kind = "map" /\ C16_EqualRepr(o.rep, first.rep) /\ ~SameListing(o.rep, first.rep)
ValChecks(o, v) ==
  IF o.kind = "panic" THEN << <<"C16_NoFailure", FALSE>> >>
  ELSE
  LET k == Key(o, v)
      known == k \in DOMAIN seen
  IN << <<"C16_Points", C16_Points(o.rep, v)>>,
        <<"C16_Canonical", C16_Canonical(o.rep)>>,
        <<"C16_CanonicalAttrs", C16_CanonicalAttrs(o.rep)>>,
        <<"C16_Query", C16_Query(o, probe, v)>>,
        <<"C16_RoundTrip", C16_RoundTrip(o)>>,
        <<"C16_EqualRepr", known => C16_EqualRepr(o.rep, seen[k].rep)>>,
        <<"C16_EqualEncoding", known => (C16_EqualEncoding(o, seen[k]) \/ OnlyAttrOrder(o, seen[k]))>> >>
ValDrift(o, v) ==
  LET k == Key(o, v)
  IN IF o.kind # "panic" /\ k \in DOMAIN seen /\ OnlyAttrOrder(o, seen[k]) /\ ~C16_EqualEncoding(o, seen[k])
     THEN {"idmap-encoding-depends-on-attribute-order"} ELSE {}
RefOf(o, v) == IF o.kind # "panic" /\ Key(o, v) \in DOMAIN seen THEN seen[Key(o, v)].n ELSE -1
Remember(o, v, ok) ==     \* only a representation that passed its own checks becomes the reference
  LET k == Key(o, v)
  IN seen' = IF ~ok \/ o.kind = "panic" \/ k \in DOMAIN seen THEN seen
             ELSE (k :> [rep |-> o.rep, enc1 |-> o.enc1, enc2 |-> o.enc2, n |-> Ev.n]) @@ seen

---------------------------------------------------------------------------
Reset ==
  /\ Ev.k = "reset"
  /\ bid' = Ev.bid /\ probe' = Ev.probe
  /\ stk' = [a |-> <<>>, b |-> <<>>] /\ bad' = [a |-> <<>>, b |-> <<>>]
  /\ seen' = EmptyFn /\ dl' = EmptyFn /\ dd' = EmptyFn /\ de' = {}
  /\ cnt' = [cnt EXCEPT !.beh = @ + 1]
  /\ UNCHANGED <<viol, drift>>

(* a fresh (empty) value in register reg *)
New ==
  /\ Ev.k = "new"
  /\ LET chk == ValChecks(Ev.obs, EmptyVal)
     IN /\ RecordR(Failing(chk), ValDrift(Ev.obs, EmptyVal), RefOf(Ev.obs, EmptyVal))
        /\ Count(chk)
        /\ Remember(Ev.obs, EmptyVal, Failing(chk) = {})
        /\ stk' = [stk EXCEPT ![Ev.reg] = <<EmptyVal>>]
        /\ bad' = [bad EXCEPT ![Ev.reg] = <<Failing(chk) # {}>>]
  /\ UNCHANGED <<bid, probe, dl, dd, de>>

(* one construction step: the operation applied to the value at depth d-1 of register reg *)
Step ==
  /\ Ev.k = "step"
  /\ LET r == Ev.reg
         d == Ev.d
         shape == d >= 1 /\ d <= Len(stk[r])
         par == IF shape THEN stk[r][d] ELSE EmptyVal
         v2 == ApplyOp(par, Ev.op)
         chk == << <<"C16_NoFailure", Ev.outcome = "ok">> >>
                \o ValChecks(Ev.obs, v2)
                \o << <<"C16_EqualReprCmp", \A i \in 1..d : Ev.eqs[i] = (v2 = stk[r][i])>> >>
     IN IF ~shape THEN
             /\ Record({"C16_TraceShape"}, {}) /\ UNCHANGED <<stk, bad, seen, cnt>>
        ELSE IF bad[r][d] THEN     \* the parent program already failed: its extensions are not judged
             /\ Skipped
             /\ stk' = [stk EXCEPT ![r] = Append(SubSeq(@, 1, d), v2)]
             /\ bad' = [bad EXCEPT ![r] = Append(SubSeq(@, 1, d), TRUE)]
        ELSE /\ RecordR(Failing(chk), ValDrift(Ev.obs, v2), RefOf(Ev.obs, v2))
             /\ Count(chk)
             /\ Remember(Ev.obs, v2, Failing(chk) = {})
             /\ stk' = [stk EXCEPT ![r] = Append(SubSeq(@, 1, d), v2)]
             /\ bad' = [bad EXCEPT ![r] = Append(SubSeq(@, 1, d), Failing(chk) # {})]
  /\ UNCHANGED <<bid, probe, dl, dd, de>>

HaveA == Len(stk.a) > 0 /\ ~Top(bad.a)
HaveB == Len(stk.b) > 0 /\ ~Top(bad.b)

(* R := op(A): conversions, copies *)
Un ==
  /\ Ev.k = "un"
  /\ IF ~HaveA THEN Skipped
     ELSE LET v2 == BinOp(Ev.op, Top(stk.a), EmptyVal, Ev.arg)
              chk == << <<"C16_NoFailure", Ev.outcome = "ok">> >> \o ValChecks(Ev.obs, v2)
          IN RecordR(Failing(chk), ValDrift(Ev.obs, v2), RefOf(Ev.obs, v2)) /\ Count(chk) /\ Remember(Ev.obs, v2, Failing(chk) = {})
  /\ UNCHANGED <<bid, probe, stk, bad, dl, dd, de>>

(* R := op(A, B) *)
Bin ==
  /\ Ev.k = "bin"
  /\ IF ~(HaveA /\ HaveB) THEN Skipped
     ELSE LET v2 == BinOp(Ev.op, Top(stk.a), Top(stk.b), Ev.arg)
              chk == << <<"C16_NoFailure", Ev.outcome = "ok">> >> \o ValChecks(Ev.obs, v2)
          IN RecordR(Failing(chk), ValDrift(Ev.obs, v2), RefOf(Ev.obs, v2)) /\ Count(chk) /\ Remember(Ev.obs, v2, Failing(chk) = {})
  /\ UNCHANGED <<bid, probe, stk, bad, dl, dd, de>>

(* A == B, B == A, per client subset_of in both directions (2 = no entry for the client, not asked) *)
Cmp ==
  /\ Ev.k = "cmp"
  /\ IF ~(HaveA /\ HaveB) THEN Skipped
     ELSE LET a == Top(stk.a)
              b == Top(stk.b)
              chk == << <<"C16_EqualReprCmp", Ev.eq = (a = b) /\ Ev.eqr = (a = b)>>,
                        <<"C16_Query", \A i \in DOMAIN Ev.sub :
                             LET s == Ev.sub[i]
                             IN /\ (s.ab # 2 => (s.ab = 1) = SubsetOf(OnClient(a, s.c), OnClient(b, s.c)))
                                /\ (s.ba # 2 => (s.ba = 1) = SubsetOf(OnClient(b, s.c), OnClient(a, s.c)))>> >>
          IN Record(Failing(chk), {}) /\ Count(chk) /\ UNCHANGED seen
  /\ UNCHANGED <<bid, probe, stk, bad, dl, dd, de>>

(* attributions(c, lo, hi) of register a *)
Attr ==
  /\ Ev.k = "attr"
  /\ IF ~HaveA THEN Skipped
     ELSE LET chk == << <<"C16_NoFailure", Ev.outcome = "ok">>,
                        <<"C16_Query", Ev.outcome # "ok" \/ AttrListingOk(Ev.lst, Top(stk.a), Ev.c, Ev.lo, Ev.hi)>> >>
          IN Record(Failing(chk), {}) /\ Count(chk) /\ UNCHANGED seen
  /\ UNCHANGED <<bid, probe, stk, bad, dl, dd, de>>

---------------------------------------------------------------------------
(* document family: replicas edit a text in turn (a `pass` hands everything over to the next
   editor), after every call the delete sets computed from the document are compared with the
   dead units reported by the hook (deleted items and collected GC units).  Which ids a call
   deletes is read from the element list recorded before the call (positions count visible
   elements); a difference between that prediction and the hook's report is drift, not C16.  *)
ListOf(r) == IF r \in DOMAIN dl THEN dl[r] ELSE <<>>
DeadOf(r) == IF r \in DOMAIN dd THEN dd[r] ELSE {}
Doc ==
  /\ Ev.k = "doc"
  /\ LET r == Ev.r
         o == Ev.obs
         op == Ev.op
         deadH == ToSet(o.dead) \cup ToSet(o.gone)
         before == DeadOf(r)
         visB == SelectSeq(ListOf(r), LAMBDA x : x \notin before)
         other == CHOOSE x \in {1, 2} : x # r
         hit == {visB[j] : j \in (op.i + 1)..(op.i + op.n)}
         expectNew == CASE op.a = "del" -> hit \cup {<<x[1], x[2] + 1>> : x \in hit \cap de}
                        [] op.a = "pass" -> DeadOf(other) \ before
                        [] OTHER -> {}
         chk == << <<"C16_NoFailure", Ev.outcome = "ok">>,
                   <<"C16_DeleteSetExact", C16_DeleteSetExact(o.ds, deadH)>>,
                   <<"C16_DeleteSetExactUpd", o.dsu_ok /\ C16_DeleteSetExact(o.dsu, deadH)>>,
                   <<"C16_DeleteSetTxn", C16_DeleteSetExact(Ev.dst, deadH \ before) \/ (Ev.dst = <<>> /\ deadH = before)>> >>
         dr == IF deadH # before \cup expectNew THEN {"doc-dead-units-differ-from-deleted-positions"} ELSE {}
     IN /\ Record(Failing(chk), dr) /\ Count(chk)
        /\ dl' = (r :> o.lst) @@ dl
        /\ dd' = (r :> deadH) @@ dd
        /\ de' = IF op.a = "emb" THEN de \cup (ToSet(o.lst) \ ToSet(ListOf(r))) ELSE de
  /\ UNCHANGED <<bid, probe, stk, bad, seen>>

TInit == /\ l = 1 /\ bid = "" /\ probe = <<>> /\ stk = [a |-> <<>>, b |-> <<>>] /\ bad = [a |-> <<>>, b |-> <<>>]
         /\ seen = EmptyFn /\ dl = EmptyFn /\ dd = EmptyFn /\ de = {}
         /\ viol = <<>> /\ drift = EmptyFn /\ cnt = [beh |-> 0, ev |-> 0, checks |-> 0]

TNext == /\ l <= Len(Rec)
         /\ l' = l + 1
         /\ (Reset \/ New \/ Step \/ Un \/ Bin \/ Cmp \/ Attr \/ Doc)

TSpec == TInit /\ [][TNext]_vars

Verdict == l = Len(Rec) + 1 =>
             PrintT(<<"VERDICT", ToJson([viol |-> viol,
                                        drift |-> {<<k[1], k[2], drift[k].n, drift[k].c>> : k \in DOMAIN drift},
                                        cnt |-> cnt, lines |-> Len(Rec)])>>)
=============================================================================
