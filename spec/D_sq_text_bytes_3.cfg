CONSTANTS
  Family = "text"
  Unit = "bytes"
  MaxOps = 3
  Shape <- NoShape
SPECIFICATION Spec
INVARIANTS InvWellFormed InvUniqueTags
CHECK_DEADLOCK FALSE
