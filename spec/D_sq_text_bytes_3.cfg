CONSTANTS
  Family = "text"
  Unit = "bytes"
  MaxOps = 3
SPECIFICATION Spec
INVARIANTS InvWellFormed InvUniqueTags
CHECK_DEADLOCK FALSE
