CONSTANTS
  Family = "map"
  Unit = "utf16"
  MaxOps = 2
  Shape <- NoShape
SPECIFICATION Spec
INVARIANTS InvWellFormed InvUniqueTags PrintSchedules
CHECK_DEADLOCK FALSE
