CONSTANTS
  Family = "text"
  Unit = "utf16"
  MaxOps = 4
  Shape <- NoShape
SPECIFICATION Spec
INVARIANTS InvWellFormed InvUniqueTags
CHECK_DEADLOCK FALSE
