SPECIFICATION Spec
INVARIANTS PrintSchedules
CHECK_DEADLOCK FALSE
CONSTANTS
  Kind = "map"
  Clients = {1}
  U = 5
  AttrLists <- AttrsMap
  EmptyAt = {2}
  MaxOps = 3
  Pairs = FALSE
  FiMax = 0
