CONSTANTS
  MaxLen = 4
  Keys = {"b"}
  Vals = {"x", "null"}
SPECIFICATION Spec
INVARIANTS StrongInvisible
CHECK_DEADLOCK FALSE
