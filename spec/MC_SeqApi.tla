---------------------------- MODULE MC_SeqApi ----------------------------
(***************************************************************************)
(* Program generator / design model for SeqApi: every sequence of valid    *)
(* public calls (within the bounds) on one replica.  The abstract value is *)
(* computed with the same operators the trace specification uses; the      *)
(* design check verifies the internal consistency of the model (every      *)
(* accessor expectation is defined and the value stays well-formed); the   *)
(* G stage prints each program as a schedule for X.                        *)
(***************************************************************************)
EXTENDS SeqApi, Json

CONSTANTS Family,   \* "text" | "array" | "map" | "xml"
          Unit,     \* "bytes" | "utf16"
          MaxOps,
          Shape     \* <<>> = any call at every step; otherwise Shape[i] = the calls allowed at step i (a "shape" of programs)

NoShape == <<>>
(* formatting shapes: one insertion, two (possibly overlapping / overriding) format calls, then any call *)
AnyText == {"tins", "temb", "tpush", "tfmt", "tdel"}
ShapeFmt4 == << {"tins"}, {"tfmt"}, {"tfmt"}, AnyText >>
ShapeFmt5 == << {"tins"}, {"tfmt"}, {"tdel", "tfmt"}, {"tfmt", "tins"}, AnyText >>
(* child-list shapes: two insertions, a removal, then an insertion by index / at an end (the removed child is still *)
(* an uncollected tombstone when the commit grouping puts the calls into one transaction or gc is off)             *)
XIns == {"xins", "xpushb", "xpushf"}
ShapeXml4 == << XIns, XIns, {"xdel"}, XIns >>
ShapeXml5 == << XIns, XIns, {"xdel"}, XIns, {"xins", "xdel"} >>

VARIABLES D, ops, nid, hist
vars == <<D, ops, nid, hist>>

Roots == {"t", "a", "m", "x"}
InitDoc == ("t" :> Container("text", "")) @@ ("a" :> Container("array", "")) @@
           ("m" :> Container("map", "")) @@ ("x" :> Container("xmlfrag", ""))

W8(c) == CASE c = "a" -> 1 [] c = "e" -> 2 [] c = "u" -> 3 [] OTHER -> 4
W16(c) == IF c = "j" THEN 2 ELSE 1
Tag(n) == "c" \o ToString(n)
Chars(cls, base) == [i \in 1..Len(cls) |-> Cell(Tag(base + i), W8(cls[i]), W16(cls[i]), {}, "ch", "")]
ValCell(n) == Cell(Tag(n), 1, 1, {}, "val", "")
EmbCell(n) == Cell(Tag(n), 1, 1, {}, "embed", "")
TypeCell(n) == Cell(Tag(n), 1, 1, {}, "type", Tag(n))

Strings == {<<"a">>, <<"e">>, <<"u">>, <<"j">>, <<"a", "u">>, <<"j", "e">>}
AttrChoices == {{<<"b", "true">>}, {<<"b", "null">>}, {<<"i", "x">>}}
InsAttrs == {{<<"b", "true">>}, {}}

(* paths by which X reaches a container: root, then 1-based sequence indexes (as "#i") or keys *)
RECURSIVE PathsFrom(_, _, _)
PathsFrom(tok, path, fuel) ==
  IF fuel = 0 \/ tok \notin DOMAIN D THEN {}
  ELSE LET v == D[tok] IN
       {<<tok, path>>}
       \cup UNION {PathsFrom(v.seq[i].ref, Append(path, "#" \o ToString(i - 1)), fuel - 1)
                   : i \in {j \in 1..Len(v.seq) : v.seq[j].kind = "type"}}
       \cup UNION {PathsFrom(v.map[k].ref, Append(path, k), fuel - 1)
                   : k \in {j \in DOMAIN v.map : v.map[j].kind = "type"}}
RootOf == CASE Family = "text" -> "t" [] Family = "array" -> "a" [] Family = "map" -> "m" [] OTHER -> "x"
Targets == PathsFrom(RootOf, <<RootOf>>, 3)

Offsets(s) == {SumW(s, k, Unit) : k \in 0..Len(s)}
Ranges(s) == {<<SumW(s, kn[1], Unit), SumW(s, kn[1] + kn[2], Unit) - SumW(s, kn[1], Unit)>> :
                kn \in {x \in (0..(Len(s) - 1)) \X (1..2) : x[1] + x[2] <= Len(s)}}

Base(op) == [op |-> op, off |-> 0, len |-> 0, i |-> 0, n |-> 1, key |-> "", kind |-> "u", mode |-> "",
             hasattrs |-> FALSE, attrs |-> {}, v |-> "", ops |-> <<>>]
AttrList(A) == LET RECURSIVE L(_) L(S) == IF S = {} THEN <<>> ELSE LET p == CHOOSE q \in S : TRUE IN <<p>> \o L(S \ {p}) IN L(A)

NestedInit(kind, n) ==
  CASE kind = "A" -> [Container("array", "") EXCEPT !.seq = <<ValCell(n + 1), ValCell(n + 2)>>]
    [] kind = "M" -> [Container("map", "") EXCEPT !.map = ("k1" :> ValCell(n + 1))]
    [] kind = "T" -> [Container("text", "") EXCEPT !.seq = Chars(<<"a", "u">>, n)]
    [] kind = "E" -> Container("xmlelem", "p")
    [] OTHER -> Container("xmltext", "")

(* one step: a valid call c on target tg = <<token, path>> creating `cells` / nested containers `nc` *)
Do(tg, c, cells, nc, extra) ==
  /\ (IF Len(Shape) = 0 THEN TRUE ELSE c.op \in Shape[ops + 1])
  /\ CallValid(D, tg[1], c, Unit)
  /\ D' = LET D2 == ApplyCall(D, tg[1], c, cells, nc, Unit)
              reach == ReachFrom(D2, Roots, 12)
          IN [t \in reach \cap DOMAIN D2 |-> D2[t]]
  /\ ops' = ops + 1
  /\ nid' = nid + 6
  /\ hist' = Append(hist, [op |-> c.op, p |-> tg[2], off |-> c.off, len |-> c.len, i |-> c.i, n |-> c.n, key |-> c.key,
                           kind |-> c.kind, mode |-> c.mode, hasattrs |-> c.hasattrs, attrs |-> AttrList(c.attrs),
                           k |-> c.key, v |-> c.v] @@ extra)

NoExtra == [x \in {} |-> 0]
TextCalls(tg) ==
  LET s == D[tg[1]].seq IN
  \/ \E off \in Offsets(s), cls \in Strings :
       \/ Do(tg, [Base("tins") EXCEPT !.off = off], Chars(cls, nid), NoMap, [s |-> cls])
       \/ \E A \in InsAttrs : Do(tg, [Base("tins") EXCEPT !.off = off, !.hasattrs = TRUE, !.attrs = A], Chars(cls, nid), NoMap, [s |-> cls])
  \/ \E off \in Offsets(s) : Do(tg, [Base("temb") EXCEPT !.off = off], <<EmbCell(nid + 1)>>, NoMap, NoExtra)
  \/ \E cls \in {<<"a">>, <<"j", "e">>} : Do(tg, Base("tpush"), Chars(cls, nid), NoMap, [s |-> cls])
  \/ \E r \in Ranges(s) :
       \/ Do(tg, [Base("tdel") EXCEPT !.off = r[1], !.len = r[2]], <<>>, NoMap, NoExtra)
       \/ \E A \in AttrChoices : Do(tg, [Base("tfmt") EXCEPT !.off = r[1], !.len = r[2], !.hasattrs = TRUE, !.attrs = A], <<>>, NoMap, NoExtra)

ArrayCalls(tg) ==
  LET s == D[tg[1]].seq top == Len(tg[2]) = 1 IN
  \/ \E i \in 0..Len(s) : \E kind \in (IF top THEN {"u", "A", "M", "T"} ELSE {"u"}) :
       Do(tg, [Base("ains") EXCEPT !.i = i, !.kind = kind],
          IF kind = "u" THEN <<ValCell(nid + 1)>> ELSE <<TypeCell(nid + 1)>>,
          IF kind = "u" THEN NoMap ELSE (Tag(nid + 1) :> NestedInit(kind, nid + 1)), NoExtra)
  \/ \E i \in 0..Len(s) : Do(tg, [Base("arange") EXCEPT !.i = i, !.n = 2], <<ValCell(nid + 1), ValCell(nid + 2)>>, NoMap, NoExtra)
  \/ (top /\ \E i \in 0..Len(s) :   \* one range insertion mixing plain values and a nested type (one C call; several Rust calls)
        Do(tg, [Base("amix") EXCEPT !.i = i], <<ValCell(nid + 1), ValCell(nid + 2), TypeCell(nid + 3), ValCell(nid + 5)>>,
           Tag(nid + 3) :> NestedInit("M", nid + 3), NoExtra))
  \/ Do(tg, Base("apushb"), <<ValCell(nid + 1)>>, NoMap, NoExtra)
  \/ Do(tg, Base("apushf"), <<ValCell(nid + 1)>>, NoMap, NoExtra)
  \/ \E i \in 0..(Len(s) - 1) : Do(tg, [Base("adel") EXCEPT !.i = i], <<>>, NoMap, NoExtra)
  \/ \E i \in 0..(Len(s) - 1) : \E n \in 1..2 : Do(tg, [Base("adelr") EXCEPT !.i = i, !.n = n], <<>>, NoMap, NoExtra)

MapCalls(tg) ==
  LET m == D[tg[1]].map top == Len(tg[2]) = 1 IN
  \E key \in (IF top THEN {"k1", "k2"} ELSE {"k1", "k3"}) :
    \/ \E kind \in (IF top THEN {"u", "A", "M", "T"} ELSE {"u"}) :
         Do(tg, [Base("mset") EXCEPT !.key = key, !.kind = kind],
            IF kind = "u" THEN <<ValCell(nid + 1)>> ELSE <<TypeCell(nid + 1)>>,
            IF kind = "u" THEN NoMap ELSE (Tag(nid + 1) :> NestedInit(kind, nid + 1)), NoExtra)
    \/ \E mode \in {"same", "new"} :
         Do(tg, [Base("mupd") EXCEPT !.key = key, !.mode = mode],
            IF mode = "same" /\ key \in DOMAIN m /\ m[key].kind # "type" THEN <<m[key]>> ELSE <<ValCell(nid + 1)>>, NoMap, NoExtra)
    \/ Do(tg, [Base("mrem") EXCEPT !.key = key], <<>>, NoMap, NoExtra)
    \/ (key = "k1" /\ Do(tg, Base("mclear"), <<>>, NoMap, NoExtra))
    \/ (top /\ \E kind \in {"A", "M", "T"} :
         Do(tg, [Base("minit") EXCEPT !.key = key, !.kind = kind], <<TypeCell(nid + 1)>>,
            Tag(nid + 1) :> Container(KindOfInit(kind), ""), NoExtra))

XmlCalls(tg) ==
  LET s == D[tg[1]].seq v == D[tg[1]] IN
  \/ /\ v.kind \in {"xmlfrag", "xmlelem"} /\ Len(tg[2]) <= 2
     /\ \/ \E i \in 0..Len(s) : \E kind \in {"E", "X"} :
             Do(tg, [Base("xins") EXCEPT !.i = i, !.kind = kind], <<TypeCell(nid + 1)>>, Tag(nid + 1) :> NestedInit(kind, nid + 1),
                [name |-> "p"])
        \/ Do(tg, [Base("xpushb") EXCEPT !.kind = "E"], <<TypeCell(nid + 1)>>, Tag(nid + 1) :> NestedInit("E", nid + 1), [name |-> "p"])
        \/ Do(tg, [Base("xpushf") EXCEPT !.kind = "X"], <<TypeCell(nid + 1)>>, Tag(nid + 1) :> NestedInit("X", nid + 1), [name |-> "p"])
        \/ \E i \in 0..(Len(s) - 1) : \E n \in 1..2 : Do(tg, [Base("xdel") EXCEPT !.i = i, !.n = n], <<>>, NoMap, NoExtra)
  \/ /\ v.kind \in {"xmlelem", "xmltext"}
     /\ \E k \in {"id", "cl"} :
          \/ \E val \in {"1", "2"} : Do(tg, [Base("xattr") EXCEPT !.key = k, !.v = val], <<>>, NoMap, NoExtra)
          \/ Do(tg, [Base("xunattr") EXCEPT !.key = k], <<>>, NoMap, NoExtra)

Next ==
  /\ ops < MaxOps
  /\ \E tg \in Targets :
       LET kind == D[tg[1]].kind IN
         \/ (IsTextKind(kind) /\ TextCalls(tg))
         \/ (kind = "array" /\ ArrayCalls(tg))
         \/ (kind = "map" /\ MapCalls(tg))
         \/ (kind \in {"xmlfrag", "xmlelem", "xmltext"} /\ XmlCalls(tg))

Init == D = InitDoc /\ ops = 0 /\ nid = 0 /\ hist = <<>>
Spec == Init /\ [][Next]_vars

Done == ops = MaxOps
PrintSchedules == Done => PrintT(<<"REPLAY", ToJson(hist)>>)

(* design invariants: the value is well-formed and every accessor expectation is defined and coherent *)
InvWellFormed ==
  \A t \in DOMAIN D :
    /\ \A i \in 1..Len(D[t].seq) : D[t].seq[i].kind = "type" => D[t].seq[i].ref \in DOMAIN D
    /\ IsTextKind(D[t].kind) => ExpectLen(D[t], Unit) = TotalW(D[t].seq, Unit)
    /\ IsTextKind(D[t].kind) =>
         LET ch == ExpectDiff(D[t]) IN
           /\ \A i \in 1..Len(ch) : Len(ch[i].tags) > 0
           /\ SumW(D[t].seq, Len(D[t].seq), Unit) >= Len(ExpectStr(D[t]))
InvUniqueTags ==
  \A t \in DOMAIN D : \A i, j \in 1..Len(D[t].seq) : i # j => D[t].seq[i].tag # D[t].seq[j].tag
=============================================================================
