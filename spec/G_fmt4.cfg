CONSTANTS
  Authors = {1, 2}
  Obs = 8
  MaxOps = 4
  SeqRoots = {"t"}
  MapKeys = {}
  Nest = FALSE
  MaxDel = 1
  Dups = FALSE
  Merge = FALSE
  Script <- P_ab
  FmtKeys = {"b"}
  FmtVals = {"x", "null"}
SPECIFICATION SpecF
INVARIANTS InvOnce InvPlaced InvBetween InvDepClosed InvNothingLost InvPending InvConverge InvPairOrder InvClosed PrintSchedules
CHECK_DEADLOCK FALSE
