CONSTANTS
  Authors = {1, 2, 3}
  Obs = 8
  MaxOps = 5
  SeqRoots = {}
  MapKeys = {"k1", "k2"}
  Nest = FALSE
  MaxDel = 2
  Merge = FALSE
  Script <- NoScript
  Dups = FALSE
SPECIFICATION Spec
INVARIANTS InvOnce InvPlaced InvBetween InvDepClosed InvNothingLost InvPending InvConverge InvPairOrder InvClosed 
CHECK_DEADLOCK FALSE
VIEW view
