SPECIFICATION TSpec
INVARIANT Verdict
POSTCONDITION Consumed
CHECK_DEADLOCK FALSE
