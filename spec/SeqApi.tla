------------------------------ MODULE SeqApi ------------------------------
(***************************************************************************)
(* Sequential meaning of the public API of every shared type on ONE        *)
(* replica (C03), and what every read accessor must return for a given     *)
(* abstract value (C17).  Constant-level module shared by MC_SeqApi        *)
(* (program generator / design check) and Trace_SeqApi (V).                *)
(*                                                                         *)
(* A document value D maps a container token (root name or an opaque id of *)
(* a nested shared type) to                                                *)
(*   [kind : "text"|"xmltext"|"array"|"map"|"xmlfrag"|"xmlelem",           *)
(*    seq  : Seq(cell), map : key -> cell, name : STRING]                  *)
(* cell = [tag, w8, w16, attrs, kind : "ch"|"embed"|"val"|"type", ref]     *)
(* tag identifies the element (unique per created element), w8/w16 are its *)
(* lengths in UTF-8 bytes / UTF-16 code units, attrs a set of <<k, v>>     *)
(* pairs, ref the token of the nested container for kind = "type".         *)
(***************************************************************************)
EXTENDS Naturals, Sequences, FiniteSets, TLC

NoMap == [x \in {} |-> 0]
Container(kind, name) == [kind |-> kind, seq |-> <<>>, map |-> NoMap, name |-> name]
Cell(tag, w8, w16, attrs, kind, ref) ==
  [tag |-> tag, w8 |-> w8, w16 |-> w16, attrs |-> attrs, kind |-> kind, ref |-> ref]

IsTextKind(k) == k \in {"text", "xmltext"}
IsSeqKind(k) == k \in {"text", "xmltext", "array", "xmlfrag", "xmlelem"}

(* length of a cell in the configured offset unit: characters by their encoding, anything else 1 *)
Width(c, unit) == IF c.kind = "ch" THEN (IF unit = "bytes" THEN c.w8 ELSE c.w16) ELSE 1
RECURSIVE SumW(_, _, _)
SumW(s, n, unit) == IF n = 0 THEN 0 ELSE SumW(s, n - 1, unit) + Width(s[n], unit)
TotalW(s, unit) == SumW(s, Len(s), unit)
(* number of cells before offset `off`; Len(s)+1 if the offset is not on a cell boundary *)
CellsBefore(s, off, unit) ==
  IF \E k \in 0..Len(s) : SumW(s, k, unit) = off
  THEN CHOOSE k \in 0..Len(s) : SumW(s, k, unit) = off
  ELSE Len(s) + 1
OnBoundary(s, off, unit) == CellsBefore(s, off, unit) <= Len(s)
(* number of cells covered by `len` units starting at cell index k (0-based) *)
CellsIn(s, k, len, unit) == CellsBefore(s, SumW(s, k, unit) + len, unit) - k

Splice(s, k, n, ins) == SubSeq(s, 1, k) \o ins \o SubSeq(s, k + n + 1, Len(s))

(* attribute update: pairs <<k, v>>; v = "null" removes the key *)
Keys(A) == {p[1] : p \in A}
ApplyAttrs(old, upd) ==
  {p \in old : p[1] \notin Keys(upd)} \cup {p \in upd : p[2] # "null"}
AttrsLeftOf(s, k) == IF k = 0 THEN {} ELSE s[k].attrs
WithAttrs(cells, A) == [i \in 1..Len(cells) |-> [cells[i] EXCEPT !.attrs = A]]

---------------------------------------------------------------------------
(* Text / XmlText.  k = cell index (0-based gap), cells = new cells.        *)
(* plain insert / insert_embed / push: the new content takes the formatting *)
(* in force left of the gap (attributes of the left neighbour)              *)
TextInsert(s, k, cells) == Splice(s, k, 0, WithAttrs(cells, AttrsLeftOf(s, k)))
(* insert_with_attributes / insert_embed_with_attributes: exactly the given attributes *)
TextInsertWith(s, k, cells, A) == Splice(s, k, 0, WithAttrs(cells, {p \in A : p[2] # "null"}))
TextRemove(s, k, n) == Splice(s, k, n, <<>>)
TextFormat(s, k, n, A) ==
  [i \in 1..Len(s) |-> IF i > k /\ i <= k + n THEN [s[i] EXCEPT !.attrs = ApplyAttrs(@, A)] ELSE s[i]]

(* apply_delta: ops = sequence of [op : "r"|"i"|"d", n, cells, attrs, hasattrs] applied with a cursor *)
(* (retain with attributes formats; insert takes exactly the given attributes, none if absent)       *)
RECURSIVE DeltaFrom(_, _, _, _)
DeltaFrom(s, cur, ops, unit) ==
  IF ops = <<>> THEN s
  ELSE LET o == Head(ops) IN
    CASE o.op = "r" ->
           LET n == CellsIn(s, cur, o.n, unit)
           IN DeltaFrom(IF o.hasattrs THEN TextFormat(s, cur, n, o.attrs) ELSE s, cur + n, Tail(ops), unit)
      [] o.op = "d" -> DeltaFrom(TextRemove(s, cur, CellsIn(s, cur, o.n, unit)), cur, Tail(ops), unit)
      [] OTHER -> DeltaFrom(TextInsertWith(s, cur, o.cells, IF o.hasattrs THEN o.attrs ELSE {}),
                            cur + Len(o.cells), Tail(ops), unit)
ApplyDelta(s, ops, unit) == DeltaFrom(s, 0, ops, unit)

---------------------------------------------------------------------------
(* Array / XML children: plain sequences of cells *)
SeqInsert(s, i, cells) == Splice(s, i, 0, cells)
SeqRemove(s, i, n) == Splice(s, i, n, <<>>)

(* Map / XML attributes: dictionaries *)
MapPut(m, k, c) == [x \in DOMAIN m \cup {k} |-> IF x = k THEN c ELSE m[x]]
MapDel(m, k) == [x \in DOMAIN m \ {k} |-> m[x]]

---------------------------------------------------------------------------
(* What the read accessors must return for a container value (C17): every   *)
(* one of them is a projection of the same abstract value.                  *)
Tags(s) == [i \in 1..Len(s) |-> s[i].tag]
ExpectLen(c, unit) == IF IsTextKind(c.kind) THEN TotalW(c.seq, unit)
                      ELSE IF c.kind = "map" THEN Cardinality(DOMAIN c.map) ELSE Len(c.seq)
(* get_string: the characters, embeds skipped *)
ExpectStr(c) == Tags(SelectSeq(c.seq, LAMBDA x : x.kind = "ch"))
(* diff: maximal runs of characters with equal attributes; every embed is a chunk of its own *)
RECURSIVE Chunks(_, _, _)
Chunks(s, i, acc) ==
  IF i > Len(s) THEN acc
  ELSE LET x == s[i]
           last == IF acc = <<>> THEN [e |-> TRUE, tags |-> <<>>, attrs |-> {}] ELSE acc[Len(acc)]
       IN IF x.kind = "ch" /\ acc # <<>> /\ ~last.e /\ last.attrs = x.attrs
          THEN Chunks(s, i + 1, [acc EXCEPT ![Len(acc)].tags = Append(@, x.tag)])
          ELSE Chunks(s, i + 1, Append(acc, [e |-> x.kind # "ch", tags |-> <<x.tag>>, attrs |-> x.attrs]))
ExpectDiff(c) == Chunks(c.seq, 1, <<>>)
(* get(i) for i in 0..len+1: the element or "" (nothing) exactly when out of range *)
ExpectGet(c) == [i \in 1..(Len(c.seq) + 2) |-> IF i <= Len(c.seq) THEN c.seq[i].tag ELSE ""]
ExpectKeys(c) == DOMAIN c.map
ExpectEntry(c, k) == IF k \in DOMAIN c.map THEN c.map[k].tag ELSE ""

(* containers reachable from the roots *)
Refs(c) == {c.seq[i].ref : i \in {j \in 1..Len(c.seq) : c.seq[j].kind = "type"}}
           \cup {c.map[k].ref : k \in {j \in DOMAIN c.map : c.map[j].kind = "type"}}
RECURSIVE ReachFrom(_, _, _)
ReachFrom(D, S, fuel) ==
  LET nxt == S \cup UNION {Refs(D[t]) : t \in S \cap DOMAIN D}
  IN IF nxt = S \/ fuel = 0 THEN S ELSE ReachFrom(D, nxt, fuel - 1)

---------------------------------------------------------------------------
(* One public call as a function on document values.                        *)
(* c : normalised call record [op, off, len, i, n, key, mode, attrs,        *)
(* hasattrs, ops, kind]; tok : target container; cells : the cells the call *)
(* creates (tags chosen by the caller); nc : the nested containers it       *)
(* creates, as a function token -> container.                               *)
AddContainers(D, nc) == [t \in DOMAIN D \cup DOMAIN nc |-> IF t \in DOMAIN nc THEN nc[t] ELSE D[t]]
SetSeq(D, tok, s) == [D EXCEPT ![tok].seq = s]
SetMap(D, tok, m) == [D EXCEPT ![tok].map = m]

(* try_update leaves an equal value alone *)
SameValue(m, k, c) == k \in DOMAIN m /\ m[k].kind # "type" /\ m[k].tag = c.tag
(* get_or_init returns an existing nested type of the requested kind *)
KindOfInit(k) == IF k = "A" THEN "array" ELSE IF k = "M" THEN "map" ELSE "text"
InitExisting(D, m, k, kind) ==
  k \in DOMAIN m /\ m[k].kind = "type" /\ m[k].ref \in DOMAIN D /\ D[m[k].ref].kind = KindOfInit(kind)

(* is the call applicable to the value (arguments in range and on unit boundaries) *)
CallValid(D, tok, c, unit) ==
  /\ tok \in DOMAIN D
  /\ LET v == D[tok] s == v.seq IN
     CASE c.op \in {"tins", "temb"} -> IsTextKind(v.kind) /\ OnBoundary(s, c.off, unit)
       [] c.op = "tpush" -> IsTextKind(v.kind)
       [] c.op \in {"tfmt", "tdel"} ->
            /\ IsTextKind(v.kind) /\ OnBoundary(s, c.off, unit) /\ c.len > 0
            /\ OnBoundary(s, c.off + c.len, unit)
       [] c.op = "tdelta" -> IsTextKind(v.kind)
       [] c.op \in {"ains", "arange", "amix"} -> v.kind = "array" /\ c.i <= Len(s)
       [] c.op \in {"apushb", "apushf"} -> v.kind = "array"
       [] c.op = "adel" -> v.kind = "array" /\ c.i < Len(s)
       [] c.op = "adelr" -> v.kind = "array" /\ c.n > 0 /\ c.i + c.n <= Len(s)
       [] c.op \in {"mset", "mupd", "mrem", "mclear", "minit"} -> v.kind = "map"
       [] c.op = "xins" -> v.kind \in {"xmlfrag", "xmlelem"} /\ c.i <= Len(s)
       [] c.op \in {"xpushb", "xpushf"} -> v.kind \in {"xmlfrag", "xmlelem"}
       [] c.op = "xdel" -> v.kind \in {"xmlfrag", "xmlelem"} /\ c.n > 0 /\ c.i + c.n <= Len(s)
       [] c.op \in {"xattr", "xunattr"} -> v.kind \in {"xmlelem", "xmltext"}
       [] OTHER -> FALSE

ApplyCall(D, tok, c, cells, nc, unit) ==
  LET v == D[tok]
      s == v.seq
      m == v.map
      k == CellsBefore(s, c.off, unit)
      D1 == AddContainers(D, nc)
  IN CASE c.op = "tins" -> SetSeq(D, tok, IF c.hasattrs THEN TextInsertWith(s, k, cells, c.attrs) ELSE TextInsert(s, k, cells))
       [] c.op = "temb" -> SetSeq(D, tok, IF c.hasattrs THEN TextInsertWith(s, k, cells, c.attrs) ELSE TextInsert(s, k, cells))
       [] c.op = "tpush" -> SetSeq(D, tok, TextInsert(s, Len(s), cells))
       [] c.op = "tfmt" -> SetSeq(D, tok, TextFormat(s, k, CellsIn(s, k, c.len, unit), c.attrs))
       [] c.op = "tdel" -> SetSeq(D, tok, TextRemove(s, k, CellsIn(s, k, c.len, unit)))
       [] c.op = "tdelta" -> SetSeq(D, tok, ApplyDelta(s, c.ops, unit))
       [] c.op \in {"ains", "arange", "amix", "xins"} -> SetSeq(D1, tok, SeqInsert(s, c.i, cells))
       [] c.op \in {"apushb", "xpushb"} -> SetSeq(D1, tok, SeqInsert(s, Len(s), cells))
       [] c.op \in {"apushf", "xpushf"} -> SetSeq(D1, tok, SeqInsert(s, 0, cells))
       [] c.op = "adel" -> SetSeq(D, tok, SeqRemove(s, c.i, 1))
       [] c.op \in {"adelr", "xdel"} -> SetSeq(D, tok, SeqRemove(s, c.i, c.n))
       [] c.op = "mset" -> SetMap(D1, tok, MapPut(m, c.key, cells[1]))
       [] c.op = "mupd" -> IF SameValue(m, c.key, cells[1]) THEN D ELSE SetMap(D, tok, MapPut(m, c.key, cells[1]))
       [] c.op = "mrem" -> SetMap(D, tok, MapDel(m, c.key))
       [] c.op = "mclear" -> SetMap(D, tok, NoMap)
       [] c.op = "minit" -> IF InitExisting(D, m, c.key, c.kind) THEN D ELSE SetMap(D1, tok, MapPut(m, c.key, cells[1]))
       [] c.op = "xattr" -> SetMap(D, tok, MapPut(m, c.key, Cell(c.v, 1, 1, {}, "val", "")))
       [] c.op = "xunattr" -> SetMap(D, tok, MapDel(m, c.key))
       [] OTHER -> D

(* return values *)
ExpectUpdated(D, tok, c, cells) == ~SameValue(D[tok].map, c.key, cells[1])
ExpectRemoved(D, tok, c) == IF c.key \in DOMAIN D[tok].map THEN D[tok].map[c.key].tag ELSE ""
=============================================================================
