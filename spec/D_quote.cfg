CONSTANTS
  Authors = {1, 2}
  Obs = 8
  MaxOps = 3
  SeqRoots = {"t"}
  MapKeys = {}
  Nest = FALSE
  MaxDel = 1
  Merge = FALSE
  Script <- NoScript
  Dups = FALSE
SPECIFICATION Spec
INVARIANTS InvQuoteConverge InvQuoteOrderOnly InvQuoteVisibleOnly
CHECK_DEADLOCK FALSE
VIEW view
