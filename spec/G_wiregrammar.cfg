CONSTANTS
  Mode = "grammar"
  Alphabet = {0}
  MaxLen = 0
SPECIFICATION Spec
INVARIANTS InvGrammar InvTotal PrintSchedules
CHECK_DEADLOCK FALSE
