CONSTANTS
  MaxLen = 2
  CustomTags = {4, 100, 127, 128, 200, 255}
SPECIFICATION Spec
INVARIANTS InvRoundTrip InvTagsDistinct PrintSchedules
CHECK_DEADLOCK FALSE
