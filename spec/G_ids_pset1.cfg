SPECIFICATION Spec
INVARIANTS PrintSchedules
CHECK_DEADLOCK FALSE
VIEW view
CONSTANTS
  Kind = "set"
  Clients = {1}
  U = 5
  AttrLists <- AttrsSet
  EmptyAt = {}
  MaxOps = 3
  Pairs = TRUE
  FiMax = 0
