SPECIFICATION Spec
INVARIANTS InvLaws InvCanon InvProg InvKind
CHECK_DEADLOCK FALSE
VIEW view
CONSTANTS
  Kind = "set"
  Clients = {1}
  U = 5
  AttrLists <- AttrsSet
  EmptyAt = {2}
  MaxOps = 3
  Pairs = TRUE
  FiMax = 0
