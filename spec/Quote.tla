------------------------------- MODULE Quote -------------------------------
(***************************************************************************)
(* C20 -- quotations and links (constant-level module over Yata).          *)
(*                                                                         *)
(* A quotation is a record                                                 *)
(*   [kind : "t" | "a" | "l",      text range, array range, map link       *)
(*    key  : container key of the map entry that stores it ("m|q1"),       *)
(*    wid  : id of the weak type element that IS the stored quotation,     *)
(*    src  : container key of the source (for a link: the map entry),      *)
(*    lo, hi : boundary element ids, None = unbounded end,                 *)
(*    loInc, hiInc : BOOLEAN]      the boundary itself belongs to the range*)
(*                                                                         *)
(* Meaning of a range given to `quote` (derived from the documentation of  *)
(* Quotable::quote, the tests quoted_text_start/end_boundary_inserts and   *)
(* quote_*_unbounded_text of yrs/src/types/weak.rs):                       *)
(*   start bound Included(i)  -> lo = i-th visible unit, loInc = TRUE      *)
(*                               (Assoc::Before on the wire)               *)
(*   start bound Excluded(i)  -> lo = i-th visible unit, loInc = FALSE     *)
(*                               (Assoc::After : the range begins right    *)
(*                               of that unit, later inserts next to it    *)
(*                               are inside)                               *)
(*   start Unbounded          -> lo = None: from the beginning of the      *)
(*                               source, whatever is inserted there later  *)
(*   end bound Included(j)    -> hi = j-th visible unit, hiInc = TRUE      *)
(*                               (Assoc::After)                            *)
(*   end bound Excluded(j)    -> hi = j-th visible unit, hiInc = FALSE     *)
(*                               (Assoc::Before; the unit must exist)      *)
(*   end Unbounded            -> hi = None: up to the end of the source    *)
(* The quoted content at any later time, on any replica, is the sequence   *)
(* of NOT deleted elements of the source that lie between the positions of *)
(* lo and hi in the replica's element list (which keeps tombstones, hence  *)
(* a deleted boundary keeps its place), a boundary itself being part of it *)
(* iff its flag says so and it is not deleted.                             *)
(*                                                                         *)
(* Predicates recorded by Trace_Quote: C20_BoundariesRight, C20_Sequential, *)
(* C20_SourceUntouched, C20_NoFailure (quote / link / qdel transactions);   *)
(* C20_Reachable, C20_UnquoteExact, C20_LinkDeref, C20_NotifiedOnChange,    *)
(* C20_NotifiedAfterStashedOverwrite, C20_KnownHandle (dereferences).       *)
(* C20_QuotationDelivery is the name tools/quote_pipe.py gives to the base  *)
(* predicates C01_NoFailure / C01_DepClosed (Trace_Yata) when they fail at  *)
(* the very event that delivers a quotation element to a replica: the       *)
(* quotation's boundary ids -- and, for an unbounded end over a nested      *)
(* collection, that collection's element -- are dependencies (Yata!Deps).   *)
(***************************************************************************)
EXTENDS Yata

Max2(a, b) == IF a > b THEN a ELSE b
Min2(a, b) == IF a < b THEN a ELSE b

(* elements of the source between the boundaries, tombstones (and formatting marks) dropped; the dereference of a
   text quotation (get_string) shows its characters only, not embedded values *)
QSeq(E, R, q) ==
  LET s    == Lst(R.lst, q.src)
      pl   == IF q.lo = None THEN 0 ELSE IndexOf(s, q.lo)
      ph   == IF q.hi = None THEN Len(s) + 1 ELSE IndexOf(s, q.hi)
      ok   == (q.lo = None \/ pl > 0) /\ (q.hi = None \/ ph > 0)
      from == IF q.lo = None THEN 1 ELSE IF q.loInc THEN pl ELSE pl + 1
      to   == IF q.hi = None THEN Len(s) ELSE IF q.hiInc THEN ph ELSE ph - 1
  IN IF ~ok \/ from > to THEN <<>>
     ELSE SelectSeq(SubSeq(s, Max2(from, 1), Min2(to, Len(s))),
                    LAMBDA x : Alive(R, x) /\ Countable(E, x) /\ (q.kind = "t" => E[x].kind = "str"))

(* a link to a map entry shows the entry's current value, or nothing *)
Deref(E, R, q) == Visible(E, R, q.src)

Content(E, R, q) == IF q.kind = "l" THEN Deref(E, R, q) ELSE QSeq(E, R, q)

(* the stored quotation is what the public API finds under its key on replica R *)
Stored(E, R, q) == Visible(E, R, q.key) = <<q.wid>>

---------------------------------------------------------------------------
(* Property predicates.                                                    *)

(* quote(range) on a source whose visible units are `vis`: the weak element written to the update names the
   requested units as boundaries (wlo/whi, None when unbounded) with the association that realises the
   inclusive/exclusive flag (wsa/wea = "start/end association is After") *)
C20_BoundariesRight(vis, su, i, si, eu, j, ei, wlo, whi, wsa, wea, wsu, weu) ==
  /\ su = wsu /\ eu = weu
  /\ su \/ (i + 1 \in 1..Len(vis) /\ wlo = vis[i + 1] /\ (si <=> ~wsa))
  /\ eu \/ (j + 1 \in 1..Len(vis) /\ whi = vis[j + 1] /\ (ei <=> wea))
  /\ (su => wlo = None) /\ (eu => whi = None)

(* link(key): the weak element names the entry that is current (right-most in the key's chain) *)
C20_LinkTargetRight(chain, wlo, whi) ==
  Len(chain) > 0 /\ wlo = chain[Len(chain)] /\ whi = wlo

C20_UnquoteExact(E, R, q, ids) == ids = QSeq(E, R, q)
C20_LinkDeref(E, R, q, ids) == ids = Deref(E, R, q)

(* Notification.  The property says "observers of a quotation are notified when content inside its range changes". *)
(* Strong reading: every transaction that changes Content(...) on a replica fires the observers installed there.  *)
(* The code implements less (links are kept per quoted ELEMENT and extended through an element's two neighbours), *)
(* so the checked predicate is the weaker reading "a change TO THE QUOTED ELEMENTS is notified":                  *)
(*   - a quoted element is deleted (a linked map entry is removed or overwritten),                               *)
(*   - an element is inserted between two quoted, not deleted elements, or between a quoted element and the       *)
(*     excluded boundary element next to it.                                                                     *)
(* `quoted elements` of a stored quotation on a replica (its core) are tracked from the moment the quotation is   *)
(* integrated there: the not-deleted elements of the range that were already present, plus every element that    *)
(* later arrives between two of them (then it is one of them), minus the deleted ones.  Changes at the fringe -- *)
(* inserts at an unbounded end, next to a boundary, next to a deleted quoted element, a map entry written again   *)
(* after its removal -- change Content(...) without touching the core; missing notifications for those are       *)
(* reported as drift "notify-miss" (strong reading), not as violations.                                           *)

(* nearest index left / right of i in s whose element is in `old` (0 if none) *)
RECURSIVE NearL(_, _, _)
NearL(s, old, i) == IF i = 0 THEN 0 ELSE IF s[i] \in old THEN i ELSE NearL(s, old, i - 1)
RECURSIVE NearR(_, _, _)
NearR(s, old, i) == IF i > Len(s) THEN 0 ELSE IF s[i] \in old THEN i ELSE NearR(s, old, i + 1)

(* one transaction R1 -> R2 of a replica; C = core before.                                                        *)
(* Result: [c : core after, hit : the core was changed, frag : the core after is only presumed].                   *)
(* frag: a linked map entry was overwritten in a transaction that started with stashed deletions for that key's    *)
(* chain (an overwrite had arrived before its predecessor).  Whether the stashed deletion of an entry is applied    *)
(* before or after its successor is integrated is the implementation's choice, and the code moves the link to the   *)
(* successor only in the second case; a notification that is missing later is then reported under its own name      *)
(* (C20_NotifiedAfterStashedOverwrite) so that this known weakness cannot hide a different one.                    *)
CoreStep(E1, R1, E2, R2, q, C) ==
  LET st1   == Stored(E1, R1, q)
      st2   == Stored(E2, R2, q)
      gone2 == R2.dead \cup R2.gone
      s1    == Lst(R1.lst, q.src)
      s2    == Lst(R2.lst, q.src)
      old   == Range(s1)
      res(c, hit) == [c |-> c, hit |-> hit, frag |-> FALSE]
  IN IF ~st2 THEN res({}, FALSE)
     ELSE IF q.kind = "l" THEN
       LET last1 == IF Len(s1) = 0 THEN None ELSE s1[Len(s1)]
           last2 == IF Len(s2) = 0 THEN None ELSE s2[Len(s2)]
       IN IF ~st1 THEN res(IF last2 \in old /\ Alive(R2, last2) THEN {last2} ELSE {}, FALSE)
          ELSE IF last1 \in C /\ last2 \notin old
               THEN [c |-> IF Alive(R2, last2) THEN {last2} ELSE {}, hit |-> TRUE,     \* overwritten: the new entry inherits the link
                     frag |-> R1.pds \cap Range(s2) # {}]
               ELSE res(C \ gone2, C \cap gone2 # {})
     ELSE IF ~st1 THEN res(Range(QSeq(E2, R2, q)) \cap old, FALSE)
     ELSE LET \* a new element joins the core when the nearest elements of the old list on its two sides are quoted
              \* elements, or one of them is and the other is the excluded boundary itself (the range is open there)
              joined == {x \in Range(s2) \ old :
                           LET i == IndexOf(s2, x)
                               a == NearL(s2, old, i - 1)
                               b == NearR(s2, old, i + 1)
                               lq == a > 0 /\ s2[a] \in C
                               rq == b > 0 /\ s2[b] \in C
                               lb == a > 0 /\ q.lo # None /\ ~q.loInc /\ s2[a] = q.lo
                               rb == b > 0 /\ q.hi # None /\ ~q.hiInc /\ s2[b] = q.hi
                           IN Alive(R2, x) /\ ((lq /\ rq) \/ (lq /\ rb) \/ (lb /\ rq))}
          IN res((C \ gone2) \cup joined, (C \cap gone2 # {}) \/ joined # {})

(* weaker reading (checked): if the core changed while an observer was installed, it has fired since *)
C20_NotifiedOnChange(need, fired) == need => fired > 0
(* strong reading (drift): the content differs between two looks at a stored, observed quotation and nothing fired *)
NotifyMiss(installed, storedBefore, storedAfter, before, after, fired) ==
  installed /\ storedBefore /\ storedAfter /\ before # after /\ fired = 0

(* creating or deleting a quotation leaves the source as it is *)
C20_SourceUntouched(E, R, E2, R2, src) ==
  /\ Without(Lst(R.lst, src), R2.gone) = Lst(R2.lst, src)
  /\ Visible(E, R, src) = Visible(E2, R2, src)
  /\ Range(Lst(R2.lst, src)) \cap R2.dead = (Range(Lst(R.lst, src)) \cap R.dead) \ R2.gone

---------------------------------------------------------------------------
(* Design-level consequences (checked exhaustively by MC_Quote on the reachable states of MC_Yata):       *)
(* every candidate quotation over elements of one sequence container                                      *)
Candidates(E, R, c) ==
  LET s == Lst(R.lst, c)
  IN {[kind |-> "a", key |-> "", wid |-> None, src |-> c, lo |-> lo, hi |-> hi, loInc |-> li, hiInc |-> hi2] :
        lo \in Range(s) \cup {None}, hi \in Range(s) \cup {None}, li \in BOOLEAN, hi2 \in BOOLEAN}
(* two replicas that received the same input dereference every quotation alike *)
QuoteConverge(E, XD, A, B) ==
  (SameInput(XD, A, B) /\ Settled(A) /\ Settled(B)) =>
     \A c \in DOMAIN A.lst : ~Keyed(E, A.lst[c]) =>
        \A q \in Candidates(E, A, c) : QSeq(E, A, q) = QSeq(E, B, q)
(* membership is a matter of order only: an element both replicas hold, together with the boundaries, is inside on
   one iff it is inside on the other (deleted or not) *)
InsideRaw(R, q, x) ==
  LET s  == Lst(R.lst, q.src)
      px == IndexOf(s, x)
      pl == IF q.lo = None THEN 0 ELSE IndexOf(s, q.lo)
      ph == IF q.hi = None THEN Len(s) + 1 ELSE IndexOf(s, q.hi)
  IN (IF q.loInc /\ q.lo # None THEN pl <= px ELSE pl < px) /\ (IF q.hiInc /\ q.hi # None THEN px <= ph ELSE px < ph)
(* (the flags only matter for x = lo or x = hi, where the answer is the flag itself on every replica) *)
QuoteOrderOnly(A, B) ==
  \A c \in DOMAIN A.lst \cap DOMAIN B.lst :
     LET common == Range(A.lst[c]) \cap Range(B.lst[c])
     IN \A lo \in common \cup {None}, hi \in common \cup {None} : \A x \in common \ {lo, hi} :
          LET q == [src |-> c, lo |-> lo, hi |-> hi, loInc |-> TRUE, hiInc |-> TRUE]
          IN InsideRaw(A, q, x) <=> InsideRaw(B, q, x)
=============================================================================
