---------------------------- MODULE MC_SyncCodec ----------------------------
(***************************************************************************)
(* Message shapes of the y-sync protocol (C18, "every protocol message     *)
(* survives encode/decode"): every sequence of at most MaxLen messages     *)
(* over a finite alphabet covering every tag of `Message` (Sync step1 /    *)
(* step2 / update, Awareness, Auth granted / denied, AwarenessQuery,       *)
(* Custom with tags below and above 127) is written into ONE buffer and    *)
(* read back (message boundaries are part of the statement).               *)
(*  - design check: the abstract wire form round-trips for every shape;    *)
(*  - G stage: every sequence is printed as a schedule for X.              *)
(***************************************************************************)
EXTENDS SyncProto, Json

CONSTANTS MaxLen, CustomTags

VARIABLES seq, hist
vars == <<seq, hist>>

(* a shape = <<abstract message, schedule record understood by the harness>> *)
Shapes ==
  { <<[t |-> "step1", sv |-> {}], [t |-> "step1", sv |-> <<>>]>>,
    <<[t |-> "step1", sv |-> {<<1, 3>>, <<2, 200>>}], [t |-> "step1", sv |-> << <<1, 3>>, <<2, 200>> >>]>>,
    <<[t |-> "step2", ins |-> {}, del |-> {}], [t |-> "step2", payload |-> "empty"]>>,
    <<[t |-> "step2", ins |-> {<<41, 0>>, <<41, 1>>, <<41, 2>>, <<41, 3>>}, del |-> {<<41, 1>>}],
      [t |-> "step2", payload |-> "one"]>>,
    <<[t |-> "update", ins |-> {}, del |-> {}], [t |-> "update", payload |-> "empty"]>>,
    <<[t |-> "update", ins |-> {<<41, 0>>, <<41, 1>>, <<41, 2>>, <<41, 3>>}, del |-> {<<41, 1>>}],
      [t |-> "update", payload |-> "one"]>>,
    <<[t |-> "aw", entries |-> {}], [t |-> "aw", n |-> 0, me |-> 5]>>,
    <<[t |-> "aw", entries |-> {[client |-> 5, clock |-> 1, data |-> "v"]}], [t |-> "aw", n |-> 1, me |-> 5]>>,
    <<[t |-> "aw", entries |-> {[client |-> 300, clock |-> 1, data |-> "v"], [client |-> 2, clock |-> 1, data |-> "null"]}],
      [t |-> "aw", n |-> 2, me |-> 300]>>,
    <<[t |-> "auth", denied |-> FALSE], [t |-> "auth", denied |-> FALSE, reason |-> ""]>>,
    <<[t |-> "auth", denied |-> TRUE, reason |-> ""], [t |-> "auth", denied |-> TRUE, reason |-> ""]>>,
    <<[t |-> "auth", denied |-> TRUE, reason |-> "no"], [t |-> "auth", denied |-> TRUE, reason |-> "no"]>>,
    <<[t |-> "query"], [t |-> "query"]>> }
  \cup { <<[t |-> "custom", tag |-> g, data |-> d], [t |-> "custom", tag |-> g, data |-> d]>> :
           g \in CustomTags, d \in {<<>>, <<1, 2, 3>>} }

Next ==
  /\ Len(seq) < MaxLen
  /\ \E s \in Shapes :
       /\ seq' = Append(seq, s[1])
       /\ hist' = Append(hist, s[2])

Init == seq = <<>> /\ hist = <<>>
Spec == Init /\ [][Next]_vars

Done == Len(seq) >= 1
PrintSchedules == Done => PrintT(<<"REPLAY", ToJson(<<[a |-> "codec", msgs |-> hist]>>)>>)

InvRoundTrip == \A i \in 1..Len(seq) : LegalMessage(seq[i]) /\ C18_MessageRoundTrip(seq[i])
(* distinct kinds never share a first byte sequence: the tag decides how the rest is read *)
InvTagsDistinct == \A s1, s2 \in Shapes : s1[1].t # s2[1].t /\ {s1[1].t, s2[1].t} \cap {"step1", "step2", "update"} = {}
                                              => VarBytes(TagOf(s1[1])) # VarBytes(TagOf(s2[1]))
=============================================================================
