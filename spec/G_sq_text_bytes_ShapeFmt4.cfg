CONSTANTS
  Family = "text"
  Unit = "bytes"
  MaxOps = 4
  Shape <- ShapeFmt4
SPECIFICATION Spec
INVARIANTS InvWellFormed InvUniqueTags PrintSchedules
CHECK_DEADLOCK FALSE
