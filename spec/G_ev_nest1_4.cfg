CONSTANTS
  Authors = {1}
  Obs = 8
  MaxOps = 4
  SeqRoots = {"a"}
  MapKeys = {"k1"}
  Nest = TRUE
  MaxDel = 1
  Merge = FALSE
  Script <- NoScript
  Dups = FALSE
SPECIFICATION Spec
INVARIANTS PrintSchedules
CHECK_DEADLOCK FALSE
