CONSTANTS
  Kind = "m"
  MaxE = 2
  MaxUR = 0
  MaxF = 0
  UseStop = FALSE
  Flat = FALSE
  Pre = TRUE
  Shape = "wiggle"
  MaxP = 1
  MaxW = 1
SPECIFICATION Spec
INVARIANTS InvExact InvRoundTrip InvNearest InvBounded InvWord PrintSchedules
CHECK_DEADLOCK FALSE
