SPECIFICATION Spec
INVARIANTS PrintSchedules
CHECK_DEADLOCK FALSE
CONSTANTS
  Kind = "set"
  Clients = {1, 2}
  U = 3
  AttrLists <- AttrsSet
  EmptyAt = {1}
  MaxOps = 1
  Pairs = FALSE
  FiMax = 2
