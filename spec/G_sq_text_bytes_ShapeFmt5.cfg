CONSTANTS
  Family = "text"
  Unit = "bytes"
  MaxOps = 5
  Shape <- ShapeFmt5
SPECIFICATION Spec
INVARIANTS InvWellFormed InvUniqueTags PrintSchedules
CHECK_DEADLOCK FALSE
