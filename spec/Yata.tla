------------------------------- MODULE Yata -------------------------------
(***************************************************************************)
(* Core of the replicated-document specification (constant-level module:   *)
(* operators only, shared by the design models MC_x and the trace           *)
(* specifications Trace_x).                                                 *)
(*                                                                         *)
(* Granularity: one element = one clock unit.  An element table E maps an  *)
(* id <<client, clock>> to                                                 *)
(*   [o, ro : Id, cont : STRING, sub : STRING, par : Id, kind : STRING,    *)
(*    w8 : Nat]                                                            *)
(* (origin, right origin, container key, map key or "", id of the type    *)
(* element owning the container or None for a root, content kind, width   *)
(* in UTF-8 bytes).  A text element is one UTF-16 code unit: a character  *)
(* of the BMP is one element (w8 = its UTF-8 length, 1..3), a character   *)
(* outside the BMP is a surrogate pair = two elements with consecutive    *)
(* clocks, the first one carrying the character (w8 = 4), the second one  *)
(* nothing (w8 = 0).  Every other element has w8 = 1.                     *)
(* A replica is a record                                                   *)
(*   [lst  : container key -> Seq(Id)   YATA order incl. tombstones,       *)
(*    dead : SUBSET Id                  tombstones among listed elements,  *)
(*    gone : SUBSET Id                  integrated units kept only as a    *)
(*                                      collected range (no list entry),   *)
(*    pend : SUBSET Id                  stashed element units,             *)
(*    pds  : SUBSET Id                  stashed deletions,                 *)
(*    dlv  : SUBSET Id                  element units ever delivered,      *)
(*    ddel : SUBSET Id]                 deletions ever delivered.          *)
(***************************************************************************)
EXTENDS Naturals, Sequences, FiniteSets, TLC

None == <<0, 0>>

Range(s) == {s[i] : i \in 1..Len(s)}
IndexOf(s, x) == IF \E i \in 1..Len(s) : s[i] = x
                 THEN CHOOSE i \in 1..Len(s) : s[i] = x ELSE 0
InsertAfter(s, i, x) == SubSeq(s, 1, i) \o <<x>> \o SubSeq(s, i + 1, Len(s))
Restrict(s, S) == SelectSeq(s, LAMBDA x : x \in S)
Without(s, S) == SelectSeq(s, LAMBDA x : x \notin S)
NoDup(s) == \A i, j \in 1..Len(s) : i # j => s[i] # s[j]
Lst(L, c) == IF c \in DOMAIN L THEN L[c] ELSE <<>>
Units(L) == UNION {Range(L[c]) : c \in DOMAIN L}
SetLst(L, c, s) == [k \in DOMAIN L \cup {c} |-> IF k = c THEN s ELSE L[k]]

EmptyReplica == [lst |-> <<>>, dead |-> {}, gone |-> {}, pend |-> {}, pds |-> {},
                 dlv |-> {}, ddel |-> {}]

Have(R) == Units(R.lst) \cup R.gone

---------------------------------------------------------------------------
(* Characters.  The two elements of a surrogate pair are one character:    *)
(* they are created, deleted and addressed together; a position between    *)
(* them is not a position of the text.                                     *)
IsLowHalf(E, x) == x \in DOMAIN E /\ E[x].w8 = 0
IsHighHalf(E, x) == ~IsLowHalf(E, x) /\ IsLowHalf(E, <<x[1], x[2] + 1>>)
CharFirst(E, x) == IF IsLowHalf(E, x) THEN <<x[1], x[2] - 1>> ELSE x
CharLast(E, x) == IF IsHighHalf(E, x) THEN <<x[1], x[2] + 1>> ELSE x
(* width of a listed element in an offset unit: "utf16" counts elements, "bytes" the UTF-8 length carried by a    *)
(* character's first element                                                                                    *)
WidthIn(E, x, unit) == IF unit = "bytes" /\ x \in DOMAIN E THEN E[x].w8 ELSE 1
RECURSIVE WidthOfSeq(_, _, _, _)
WidthOfSeq(E, v, n, unit) == IF n = 0 THEN 0 ELSE WidthOfSeq(E, v, n - 1, unit) + WidthIn(E, v[n], unit)
(* gap p (0..Len(v)) of the visible list v is a character boundary *)
OnCharBoundary(E, v, p) == p = Len(v) \/ ~IsLowHalf(E, v[p + 1])
(* a visible list never shows half a character *)
WholeChars(E, v) ==
  \A i \in 1..Len(v) :
     /\ IsLowHalf(E, v[i]) => (i > 1 /\ v[i - 1] = CharFirst(E, v[i]))
     /\ IsHighHalf(E, v[i]) => (i < Len(v) /\ v[i + 1] = CharLast(E, v[i]))

---------------------------------------------------------------------------
(* YATA integration: Item::detect_conflict / resolve_conflict (block.rs).  *)
(* s : the container's list, it : the new element, o : index being         *)
(* scanned, ri : index of the right origin (Len+1 if none), left : index   *)
(* after which `it` currently goes, conf/before : the two scan sets.       *)
RECURSIVE Scan(_, _, _, _, _, _, _, _)
Scan(E, s, it, o, ri, left, conf, before) ==
  IF o >= ri \/ o > Len(s) THEN left
  ELSE LET x  == s[o]
           b2 == before \cup {x}
           c2 == conf \cup {x}
       IN IF E[x].o = E[it].o
          THEN IF x[1] < it[1] THEN Scan(E, s, it, o + 1, ri, o, {}, b2)
               ELSE IF E[x].ro = E[it].ro THEN left
               ELSE Scan(E, s, it, o + 1, ri, left, c2, b2)
          ELSE IF E[x].o # None /\ E[x].o \in b2
               THEN IF E[x].o \notin c2 THEN Scan(E, s, it, o + 1, ri, o, {}, b2)
                    ELSE Scan(E, s, it, o + 1, ri, left, c2, b2)
               ELSE left

(* index after which `it` is placed in s *)
IntegratePos(E, s, it) ==
  LET li  == IF E[it].o = None THEN 0 ELSE IndexOf(s, E[it].o)
      ri0 == IF E[it].ro = None THEN 0 ELSE IndexOf(s, E[it].ro)
      ri  == IF ri0 = 0 THEN Len(s) + 1 ELSE ri0
  IN Scan(E, s, it, li + 1, ri, li, {}, {})

IntegrateOne(E, s, it) == InsertAfter(s, IntegratePos(E, s, it), it)

Quoted(e) == IF "q" \in DOMAIN e THEN Range(e.q) ELSE {}
Deps(E, x) == ({E[x].o, E[x].ro, E[x].par} \cup Quoted(E[x])) \ {None}

(* pick order of the implementation: clients in descending order, clocks ascending *)
PickFirst(S) == CHOOSE y \in S : \A z \in S : y[1] > z[1] \/ (y[1] = z[1] /\ y[2] <= z[2])

(* integrate every candidate whose dependencies are integrated (fix-point) *)
(* returns <<lists, integrated set, rest>>                                 *)
RECURSIVE IntegrateAll(_, _, _, _)
IntegrateAll(E, L, have, cand) ==
  LET ready == {x \in cand : Deps(E, x) \subseteq have}
  IN IF ready = {} THEN <<L, have, cand>>
     ELSE LET x == PickFirst(ready)
              c == E[x].cont
          IN IntegrateAll(E, SetLst(L, c, IntegrateOne(E, Lst(L, c), x)), have \cup {x}, cand \ {x})

(* integrate exactly the given set, dependency-respecting canonical order  *)
RECURSIVE IntegrateSet(_, _, _, _)
IntegrateSet(E, L, have, todo) ==
  IF todo = {} THEN L
  ELSE LET ready == {x \in todo : Deps(E, x) \cap todo = {}}
           x == IF ready = {} THEN PickFirst(todo) ELSE PickFirst(ready)
           c == E[x].cont
       IN IntegrateSet(E, SetLst(L, c, IntegrateOne(E, Lst(L, c), x)), have \cup {x}, todo \ {x})

---------------------------------------------------------------------------
(* Deletion semantics (integrate_item: needs_deletion / override of the    *)
(* previous map entry; TransactionMut::delete: recursive subtree).         *)
Keyed(E, s) == Len(s) > 0 /\ E[s[1]].sub # ""
MapLosers(E, L) == UNION {IF Keyed(E, L[c]) THEN Range(SubSeq(L[c], 1, Len(L[c]) - 1)) ELSE {}
                          : c \in DOMAIN L}
RECURSIVE DeadClosure(_, _, _)
DeadClosure(E, U, D) ==
  LET kids == {x \in U : E[x].par \in D}
  IN IF kids \subseteq D THEN D ELSE DeadClosure(E, U, D \cup kids)
(* tombstones a replica must have, given its lists, the collected units    *)
(* and the deletions delivered to it                                       *)
ExpectedDead(E, L, gone, del) ==
  LET U == Units(L)
  IN DeadClosure(E, U, (del \cap U) \cup MapLosers(E, L) \cup {x \in U : E[x].par \in gone})

Alive(R, x) == x \notin R.dead /\ x \notin R.gone
(* formatting marks are listed elements that are never visible (not countable) *)
Countable(E, x) == E[x].kind # "fmt"
Visible(E, R, c) ==
  LET s == Lst(R.lst, c)
  IN IF Keyed(E, s)
     THEN (IF Alive(R, s[Len(s)]) THEN <<s[Len(s)]>> ELSE <<>>)
     ELSE SelectSeq(s, LAMBDA x : x \notin R.dead /\ Countable(E, x))

(* a container can be reached through the public API iff every owning type element is alive *)
RECURSIVE Reachable(_, _, _, _)
Reachable(E, R, p, fuel) ==
  IF p = None THEN TRUE
  ELSE IF fuel = 0 \/ p \notin DOMAIN E THEN FALSE
  ELSE /\ p \in Units(R.lst) /\ p \notin R.dead
       /\ (E[p].sub = "" \/ Visible(E, R, E[p].cont) = <<p>>)
       /\ Reachable(E, R, E[p].par, fuel - 1)
ContReachable(E, R, c) ==
  LET s == Lst(R.lst, c) IN Len(s) > 0 /\ Reachable(E, R, E[s[1]].par, 8)

(* skip-aware state vector: first clock of each client that is not integrated *)
RECURSIVE FirstGap(_, _, _)
FirstGap(H, c, k) == IF <<c, k>> \in H THEN FirstGap(H, c, k + 1) ELSE k
SVOf(H) == {<<c, FirstGap(H, c, 0)>> : c \in {x[1] : x \in H}} \ {<<c, 0>> : c \in {x[1] : x \in H}}
TopOf(H) == {<<c, k>> \in {<<x[1], x[2] + 1>> : x \in H} : \A y \in H : y[1] = c => y[2] < k}

---------------------------------------------------------------------------
(* Property-level predicates on a single replica state R (E = elements).   *)

C04_Once(R) == /\ \A c \in DOMAIN R.lst : NoDup(R.lst[c])
               /\ \A c, d \in DOMAIN R.lst : c # d => Range(R.lst[c]) \cap Range(R.lst[d]) = {}
               /\ Units(R.lst) \cap R.gone = {}
C04_Placed(E, R) == \A c \in DOMAIN R.lst : \A x \in Range(R.lst[c]) : x \in DOMAIN E /\ E[x].cont = c
C04_Between(E, R) ==
  \A c \in DOMAIN R.lst :
    LET s == R.lst[c] IN
    \A i \in 1..Len(s) :
      LET x == s[i] IN
        /\ (E[x].o # None /\ IndexOf(s, E[x].o) # 0 => IndexOf(s, E[x].o) < i)
        /\ (E[x].ro # None /\ IndexOf(s, E[x].ro) # 0 => IndexOf(s, E[x].ro) > i)
C01_DepClosed(E, R) == \A x \in Units(R.lst) : Deps(E, x) \subseteq Have(R)
C05_DeadExact(E, R) == R.dead = ExpectedDead(E, R.lst, R.gone, R.ddel)
(* C04, first sentence, for sequence containers: an element is tombstoned exactly when a deletion of it *)
(* (explicit, or implied by the removal of a container it lives in) has been received                 *)
C04_AppearsIff(E, R) ==
  LET exp == ExpectedDead(E, R.lst, R.gone, R.ddel)
  IN \A c \in DOMAIN R.lst : ~Keyed(E, R.lst[c]) => \A x \in Range(R.lst[c]) : (x \in R.dead) <=> (x \in exp)
(* causal last-writer-wins: SEEN[y] = elements of y's own map-entry chain that y's creator had      *)
(* integrated when it created y.  An entry that causally follows another one lies to its right, so  *)
(* the visible (right-most) entry is never causally followed by another delivered write of that key *)
C05_CausalOrder(E, SEEN, R) ==
  \A c \in DOMAIN R.lst :
    LET s == R.lst[c] IN
      Keyed(E, s) => \A i, j \in 1..Len(s) : (i < j /\ s[i] \in DOMAIN SEEN) => s[j] \notin SEEN[s[i]]
C02_NothingLost(R) == /\ R.dlv = Have(R) \cup (R.pend \ Have(R))
                      /\ R.pend \subseteq R.dlv
                      /\ (R.ddel \ Have(R)) \subseteq R.pds
                      /\ R.pds \subseteq R.ddel
C02_DeletionsApplied(R) == (R.ddel \cap Have(R)) \subseteq (R.dead \cup R.gone)
(* implementation-level only (reported as drift): the stash holds nothing that is integrated *)
StashTight(R) == R.pds \cap Have(R) = {} /\ R.pend \cap Have(R) = {}
(* what is really outstanding *)
Outstanding(R) == (R.pend \ Have(R)) # {} \/ (R.pds \ Have(R)) # {}
C02_PendingIffMissing(E, R) ==
  (R.pend \ Have(R)) # {} => \E x \in R.pend \ Have(R) : ~(Deps(E, x) \subseteq Have(R))

(* Transition constraints from R to R2 (same replica, one step).           *)
C04_Stable(R, R2) ==
  /\ Have(R) \subseteq Have(R2)
  /\ R.gone \subseteq R2.gone
  /\ \A c \in DOMAIN R.lst :
       Restrict(Lst(R2.lst, c), Range(R.lst[c])) = Without(R.lst[c], R2.gone)
C04_NoResurrect(R, R2) == R.dead \subseteq (R2.dead \cup R2.gone)
(* collected units: only tombstones are collected, and a listed element moves to `gone`
   only together with its (collected) parent                                         *)
C15_OnlyDeadCollected(E, R, R2) ==
  \A x \in (R2.gone \ R.gone) \cap Units(R.lst) : x \in R.dead \/ E[x].par \in (R.dead \cup R2.gone \cup R2.dead)

(* Cross-replica predicates.                                               *)
(* "the same set of updates": the same element units and the same explicit removals (XD = ids  *)
(* removed by a user-level delete/remove call; deletions implied by map overwrites and by the  *)
(* removal of a containing type are consequences, not inputs)                                 *)
SameInput(XD, A, B) == A.dlv = B.dlv /\ (A.ddel \cap XD) = (B.ddel \cap XD)
Settled(R) == R.pend \ Have(R) = {} /\ R.pds = {}
C01_Converge(E, XD, A, B) ==
  (SameInput(XD, A, B) /\ Settled(A) /\ Settled(B)) =>
     /\ Have(A) = Have(B)
     /\ \A c \in DOMAIN A.lst \cup DOMAIN B.lst :
          /\ Without(Lst(A.lst, c), B.gone) = Without(Lst(B.lst, c), A.gone)
          /\ (ContReachable(E, A, c) \/ ContReachable(E, B, c)) => Visible(E, A, c) = Visible(E, B, c)
     /\ (A.dead \cup A.gone) = (B.dead \cup B.gone)
C04_PairOrder(A, B) ==
  \A c \in DOMAIN A.lst \cap DOMAIN B.lst :
     LET common == Range(A.lst[c]) \cap Range(B.lst[c])
     IN Restrict(A.lst[c], common) = Restrict(B.lst[c], common)
=============================================================================
