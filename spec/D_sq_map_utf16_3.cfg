CONSTANTS
  Family = "map"
  Unit = "utf16"
  MaxOps = 3
SPECIFICATION Spec
INVARIANTS InvWellFormed InvUniqueTags
CHECK_DEADLOCK FALSE
