CONSTANTS
  Family = "text"
  Unit = "bytes"
  MaxOps = 2
SPECIFICATION Spec
INVARIANTS InvWellFormed InvUniqueTags PrintSchedules
CHECK_DEADLOCK FALSE
