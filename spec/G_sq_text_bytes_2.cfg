CONSTANTS
  Family = "text"
  Unit = "bytes"
  MaxOps = 2
  Shape <- NoShape
SPECIFICATION Spec
INVARIANTS InvWellFormed InvUniqueTags PrintSchedules
CHECK_DEADLOCK FALSE
