CONSTANTS
  Kind = "m"
  MaxE = 4
  MaxUR = 3
  MaxF = 0
  UseStop = FALSE
  Flat = FALSE
  Pre = FALSE
SPECIFICATION Spec
INVARIANTS InvExact InvRoundTrip InvNearest InvBounded PrintSchedules
CHECK_DEADLOCK FALSE
