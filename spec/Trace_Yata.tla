---------------------------- MODULE Trace_Yata ----------------------------
(***************************************************************************)
(* V stage: validates traces recorded from the real library against the    *)
(* Yata specification.  One trace action per event kind; actions are       *)
(* total: a failed predicate is added to `viol` and the rest of that       *)
(* behaviour is skipped up to the next `reset` event.                      *)
(***************************************************************************)
EXTENDS Rich, Json, IOUtils

Rec == ndJsonDeserialize(IOEnv.TRACE)

VARIABLES l,       \* next trace line
          ln0,    \* line of the current behaviour's reset event
          bid,     \* id of the current behaviour
          E,       \* element table
          XD,      \* ids removed by an explicit delete / remove call
          U,       \* updates emitted by local operations, in emission order: [ins, del]
          SEEN,    \* element -> elements of its container its creator had integrated when creating it
          S,       \* replica id -> replica record
          cfg,     \* replica id -> [gc : BOOLEAN, cf : BOOLEAN] (garbage collection, automatic formatting clean-up)
          failed,  \* current behaviour already has a violation
          viol,    \* set of <<bid, predicate, line>>
          drift,   \* set of <<bid, what, line>>: implementation-level prediction differs
          cnt      \* [beh, ev, checks] counters
vars == <<l, ln0, bid, E, XD, U, SEEN, S, cfg, failed, viol, drift, cnt>>

Ev == Rec[l]
Ids(q) == Range(q)
EmptyFn == [x \in {} |-> 0]

---------------------------------------------------------------------------
(* (w8 is recorded by the Yata executor; traces of other recorders describe no text widths) *)
UnitRec(u) == [o |-> u.o, ro |-> u.ro, cont |-> u.cont, sub |-> u.sub, par |-> u.par,
               kind |-> u.kind, q |-> u.q, w8 |-> IF "w8" \in DOMAIN u THEN u.w8 ELSE 1,
               \* formatting marks: attribute key / JSON text of the value (absent in traces of older producers)
               fk |-> IF "fk" \in DOMAIN u THEN u.fk ELSE "", fv |-> IF "fv" \in DOMAIN u THEN u.fv ELSE ""]
Struct(e) == <<e.o, e.ro, e.cont, e.sub, e.par>>
RealUnits(us) == {i \in 1..Len(us) : us[i].kind # "gc"}
FreshIdx(us) == {i \in RealUnits(us) : us[i].id \notin DOMAIN E}
Extend(us) ==
  LET new == {us[i].id : i \in FreshIdx(us)}
  IN [id \in DOMAIN E \cup new |->
        IF id \in DOMAIN E THEN E[id]
        ELSE UnitRec(us[CHOOSE i \in FreshIdx(us) : us[i].id = id])]
(* an id denotes the same operation wherever it travels *)
WireConsistent(us) ==
  \A i \in RealUnits(us) : us[i].id \in DOMAIN E => Struct(us[i]) = Struct(E[us[i].id])
InsIds(us) == {us[i].id : i \in 1..Len(us)}
(* a unit travelling as collected content carries its own deletion *)
ImplicitDel(us) == {us[i].id : i \in {j \in 1..Len(us) : us[j].kind \in {"gc", "deleted"}}}

ObsRep(o, dlv, ddel) ==
  [lst |-> o.lst, dead |-> Ids(o.dead), gone |-> Ids(o.gone), pend |-> Ids(o.pend),
   pds |-> Ids(o.pds), dlv |-> dlv, ddel |-> ddel]

WellFormed(E2, o) ==
  /\ \A c \in DOMAIN o.lst : \A i \in 1..Len(o.lst[c]) : o.lst[c][i] \in DOMAIN E2
  /\ Ids(o.pend) \subseteq DOMAIN E2

(* what the public read API shows equals the visible elements of the lists *)
PubAgrees(E2, R, o) ==
  /\ \A c \in DOMAIN o.pub : o.pub[c] = Visible(E2, R, c)
  /\ \A c \in DOMAIN R.lst : ContReachable(E2, R, c) /\ Visible(E2, R, c) # <<>> => c \in DOMAIN o.pub
  /\ o.c17 = "ok"
(* rich text: the public diff() -- chunks [[unit ids], [[key, value], ...]] mapped back to unit ids through the   *)
(* tags -- is the Render of the recorded structure (and get_string, compared with the chunks by the harness   *)
(* flag c17, its projection)                                                                                  *)
RECURSIVE FlatChunks(_, _)
FlatChunks(ch, i) ==
  IF i > Len(ch) THEN <<>>
  ELSE [j \in 1..Len(ch[i][1]) |-> <<ch[i][1][j], Range(ch[i][2])>>] \o FlatChunks(ch, i + 1)
DiffAgrees(E2, R, o) ==
  \A c \in DOMAIN o.rich :
     /\ \A i \in 1..Len(o.rich[c]) : Len(o.rich[c][i][1]) > 0
     /\ FlatChunks(o.rich[c], 1) = RenderOf(E2, R, c)
     /\ c \in DOMAIN o.pub /\ [j \in 1..Len(RenderOf(E2, R, c)) |-> RenderOf(E2, R, c)[j][1]] = o.pub[c]
SvAgrees(R, o) == Ids(o.sv) \ {<<x[1], 0>> : x \in Ids(o.sv)} = SVOf(Have(R))

(* implementation-level prediction: YATA placement of the newly listed elements *)
PlacementPredicted(E2, R, R2) ==
  LET new == Units(R2.lst) \ Units(R.lst)
      base0 == [c \in DOMAIN R.lst |-> Without(R.lst[c], R2.gone)]
      pred == IntegrateSet(E2, base0, Units(base0), new)
  IN \A c \in DOMAIN R2.lst : Without(Lst(pred, c), R2.gone) = R2.lst[c]

(* checks common to every step of replica r: R -> R2 *)
StepChecks(E2, XD2, SN, r, R, R2, o, forced) ==
  << <<"C04_Once", C04_Once(R2)>>,
     <<"C04_Placed", C04_Placed(E2, R2)>>,
     <<"C04_Between", C04_Between(E2, R2)>>,
     <<"C04_Stable", C04_Stable(R, R2)>>,
     <<"C04_NoResurrect", C04_NoResurrect(R, R2)>>,
     <<"C04_AppearsIff", C04_AppearsIff(E2, R2)>>,
     <<"C01_DepClosed", C01_DepClosed(E2, R2)>>,
     <<"C05_DeadExact", C05_DeadExact(E2, R2)>>,
     <<"C05_CausalOrder", C05_CausalOrder(E2, SN, R2)>>,
     <<"C02_NothingLost", C02_NothingLost(R2)>>,
     <<"C02_DeletionsApplied", C02_DeletionsApplied(R2)>>,
     <<"C02_PendingIffMissing", C02_PendingIffMissing(E2, R2)>>,
     <<"C02_FlagExact", o.missing = Outstanding(R2)>>,
     <<"C15_OnlyDeadCollected", C15_OnlyDeadCollected(E2, R, R2)>>,
     <<"C15_GcOffKeepsAll", cfg[r].gc \/ forced \/ (R2.gone \ R.gone) \subseteq (R2.dlv \ R.dlv) \cup R.pend>>,
     <<"C17_PubAgrees", ("nopub" \in DOMAIN o) \/ PubAgrees(E2, R2, o)>>,
     <<"C17_DiffRender", ("rich" \notin DOMAIN o) \/ DiffAgrees(E2, R2, o)>>,
     <<"C01_RenderConverge", \A b \in DOMAIN S \ {r} : C01_RenderConverge(E2, XD2, R2, S[b])>>,
     <<"C06_SvExact", SvAgrees(R2, o)>>,
     <<"C01_Converge", \A b \in DOMAIN S \ {r} : C01_Converge(E2, XD2, R2, S[b])>>,
     <<"C04_PairOrder", \A b \in DOMAIN S \ {r} : C04_PairOrder(R2, S[b])>> >>

FolChecks(E2, R2, o, f) ==
  LET F == ObsRep(f, R2.dlv, R2.ddel)
  IN << <<"C07_FollowerEqual",
          /\ \A c \in DOMAIN R2.lst \cup DOMAIN F.lst :
               Without(Lst(R2.lst, c), F.gone) = Without(Lst(F.lst, c), R2.gone)
          /\ (R2.dead \cup R2.gone) = (F.dead \cup F.gone)
          /\ f.pub = o.pub
          /\ Ids(f.sv) = Ids(o.sv)>> >>

(* marks a replica holds as tombstones only because of somebody's clean-up: clean-up deletions are kept in XD, the *)
(* deletions of user-level calls are the delete sets of the local updates U                                        *)
UserDel == UNION {U[i].del : i \in 1..Len(U)}
CleanedOnly(E2, XD2, udel) == {x \in XD2 : x \in DOMAIN E2 /\ IsMark(E2, x)} \ udel
(* the stronger reading of "clean-up is invisible" (see Rich.tla) is reported as drift *)
StrongDrift(E2, XD2, udel, r, R2) ==
  LET cla == CleanedOnly(E2, XD2, udel)
  IN IF cla = {} THEN {}
     ELSE (IF ~StrongCleanupInvisible(E2, R2, cla) THEN {"cleanup-visible"} ELSE {})
          \cup (IF \E b \in DOMAIN S \ {r} : ~StrongRenderConverge(E2, XD2 \ cla, R2, S[b])
                THEN {"render-depends-on-cleanup"} ELSE {})

Failing(chk) == {chk[i][1] : i \in {j \in 1..Len(chk) : ~chk[j][2]}}

Record(bad, dr) ==
  /\ viol' = viol \cup {<<bid, p, l - ln0>> : p \in bad}
  /\ failed' = (failed \/ bad # {})
  /\ drift' = drift \cup {<<bid, d, l - ln0>> : d \in dr}

---------------------------------------------------------------------------
Reset ==
  /\ Ev.k = "reset"
  /\ bid' = Ev.bid /\ ln0' = l
  /\ E' = EmptyFn /\ XD' = {} /\ U' = <<>> /\ SEEN' = EmptyFn
  /\ S' = [r \in {Ev.cfg.replicas[i].id : i \in 1..Len(Ev.cfg.replicas)} |-> EmptyReplica]
  /\ cfg' = [r \in {Ev.cfg.replicas[i].id : i \in 1..Len(Ev.cfg.replicas)} |->
               LET rep == Ev.cfg.replicas[CHOOSE i \in 1..Len(Ev.cfg.replicas) : Ev.cfg.replicas[i].id = r]
               IN [gc |-> rep.gc, cf |-> IF "cf" \in DOMAIN rep THEN rep.cf ELSE FALSE]]
  /\ failed' = FALSE
  /\ cnt' = [cnt EXCEPT !.beh = @ + 1]
  /\ UNCHANGED <<viol, drift>>

Skip ==  \* behaviour already failed, or an event this module does not interpret
  /\ Ev.k # "reset"
  /\ failed
  /\ UNCHANGED <<ln0, bid, E, XD, U, SEEN, S, cfg, failed, viol, drift, cnt>>

PanicOrError(outcome) == outcome # "ok"

(* local operation of replica r: every created element is integrated at once *)
Local ==
  /\ Ev.k = "loc" /\ ~failed
  /\ LET r  == Ev.r
         us == Ev.upd.ins
         E2 == Extend(us)
         R  == S[r]
         R2 == ObsRep(Ev.obs, R.dlv \cup InsIds(us), R.ddel \cup Ids(Ev.upd.del) \cup ImplicitDel(us))
         ok == WellFormed(E2, Ev.obs)
         changed == Have(R2) # Have(R) \/ (R2.dead \cup R2.gone) # (R.dead \cup R.gone)
         newIds == InsIds(us)
         call == Ev.call
         visB == Visible(E, R, Ev.cont)
         visA == IF ok THEN Visible(E2, R2, Ev.cont) ELSE <<>>
         seqOk ==
           CASE call.a \in {"ins", "emb", "insa"} ->
                  /\ Len(visA) >= Len(visB)
                  /\ SubSeq(visA, 1, call.i) = SubSeq(visB, 1, call.i)
                  /\ SubSeq(visA, call.i + 1 + (Len(visA) - Len(visB)), Len(visA)) = SubSeq(visB, call.i + 1, Len(visB))
                  /\ Range(SubSeq(visA, call.i + 1, call.i + (Len(visA) - Len(visB)))) \subseteq newIds
                  /\ Len(visA) > Len(visB)
             [] call.a = "del" ->
                  visA = SubSeq(visB, 1, call.i) \o SubSeq(visB, call.i + call.n + 1, Len(visB))
             [] call.a = "set" -> Len(visA) = 1 /\ visA[1] \in newIds
             [] call.a = "rem" -> visA = <<>>
             [] call.a = "fmt" -> visA = visB
             [] OTHER -> TRUE
         XD2 == IF call.a \in {"del", "rem"} THEN XD \cup (Range(visB) \ Range(visA))
                \* marks removed by a format call are not implied by anything the receivers integrate: they are input
                \* a multi-operation transaction: every deletion it carries counts as explicit (stricter SameInput,
                \* hence never more demanding for C01_Converge)
                ELSE IF call.a \in {"fmt", "multi"} THEN XD \cup Ids(Ev.upd.del)
                ELSE XD
         \* sequential meaning of the rich-text calls on the rendered attributes (only where marks are around)
         rich == ok /\ Ev.cont \in DOMAIN R2.lst /\ ~Keyed(E2, R2.lst[Ev.cont]) /\ Marked(E2, R2.lst[Ev.cont])
         RB == RenderOf(E, R, Ev.cont)
         RA == RenderOf(E2, R2, Ev.cont)
         richOk ==
           CASE call.a \in {"ins", "emb"} -> C03_RichInsert(RB, RA, call.i, newIds)
             [] call.a = "insa" -> C03_RichInsertWith(RB, RA, call.i, newIds, call.key, call.v)
             [] call.a = "del" -> C03_RichDelete(RB, RA, call.i, call.n)
             [] call.a = "fmt" -> C03_RichFormat(RB, RA, call.i, call.n, call.key, call.v)
             [] OTHER -> TRUE
         fresh == {us[i].id : i \in FreshIdx(us)}
         SEEN2 == [x \in DOMAIN SEEN \cup fresh |->
                     IF x \in DOMAIN SEEN THEN SEEN[x]
                     ELSE Range(Lst(R.lst, us[CHOOSE i \in FreshIdx(us) : us[i].id = x].cont))]
         chk == IF ~ok THEN << <<"C04_Placed", FALSE>> >>
                ELSE StepChecks(E2, XD2, SEEN2, r, R, R2, Ev.obs, call.a = "gcf")
                     \o << <<"C03_NoFailure", Ev.outcome = "ok">>,
                           <<"C09_WireConsistent", WireConsistent(us) /\ Ev.wire = "">>,
                           <<"C04_FreshIds", \A i \in RealUnits(us) : us[i].id \notin DOMAIN E /\ us[i].id[1] = r>>,
                           <<"C04_AllIntegrated", newIds \subseteq Have(R2) /\ R2.pend = R.pend>>,
                           <<"C03_Sequential", Ev.outcome # "ok" \/ seqOk>>,
                           <<"C03_RichSequential", Ev.outcome # "ok" \/ ~rich \/ richOk>>,
                           <<"C07_EmitIffChanged", Ev.nev = (IF changed THEN <<1, 1>> ELSE <<0, 0>>)>> >>
                     \o (IF Ev.hasfol THEN FolChecks(E2, R2, Ev.obs, Ev.fol.v1) \o FolChecks(E2, R2, Ev.obs, Ev.fol.v2) ELSE <<>>)
         dr == (IF ok /\ ~PlacementPredicted(E2, R, R2) THEN {"placement"} ELSE {})
               \cup (IF ok /\ ~StashTight(R2) THEN {"stash-not-tight"} ELSE {})
               \cup (IF ok THEN StrongDrift(E2, XD2, UserDel \cup Ids(Ev.upd.del), r, R2) ELSE {})
     IN /\ Record(Failing(chk), dr)
        /\ E' = E2 /\ XD' = XD2 /\ SEEN' = SEEN2
        /\ U' = IF call.a = "gcf" THEN U ELSE Append(U, [ins |-> InsIds(us), del |-> Ids(Ev.upd.del)])
        /\ S' = [S EXCEPT ![r] = R2]
        /\ cnt' = [cnt EXCEPT !.ev = @ + 1, !.checks = @ + Len(chk)]
  /\ UNCHANGED <<ln0, bid, cfg>>

(* replica r applies a payload (one update, a merged update, a diff or a full state) *)
ApplyTo(r, payload, emit, outcome, wire, o, nev, hasfol, fol, extra(_, _, _)) ==
  LET us == payload.ins
      E2 == Extend(us \o emit.ins)
      R  == S[r]
      ddel2 == R.ddel \cup Ids(payload.del) \cup ImplicitDel(us)
      \* automatic formatting clean-up: the marks this transaction deleted (they are in its update event) without any
      \* delivered deletion naming them.  They are operations of the cleaning replica: explicit deletions (XD) that it
      \* has delivered to itself; whoever receives its state receives them in the delete set.  A replica with the
      \* clean-up switched off has none (its tombstones stay exactly the expected ones, C05_DeadExact).
      \* (marks that are tombstones anyway - inside a removed subtree, or collected together with their parent - are not clean-up)
      cand == IF cfg[r].cf THEN {x \in Ids(emit.del) : x \in DOMAIN E2 /\ IsMark(E2, x)} \ (ddel2 \cup Ids(o.gone)) ELSE {}
      CL == IF cand = {} \/ ~WellFormed(E2, o) THEN cand ELSE cand \ ExpectedDead(E2, o.lst, Ids(o.gone), ddel2)
      XD2 == XD \cup CL
      R2 == ObsRep(o, R.dlv \cup InsIds(us), ddel2 \cup CL)
      \* implementation-level prediction (drift only): the transcription of TransactionMut::cleanup_fmt in Rich.tla, run on
      \* the recorded lists with the tombstones / insertions / deletions the transaction had made before the clean-up
      \* (the units it integrated are Have(R2) \ Have(R): with gaps the update event re-emits blocks integrated earlier;
      \* a mark that arrives as collected content - the sender had garbage-collected its tombstone - is a plain deleted
      \* unit for cleanup_fmt, not a deleted mark)
      asDel == {us[i].id : i \in {j \in 1..Len(us) : us[j].kind = "deleted"}}
      E3 == IF asDel \cap DOMAIN E2 = {} THEN E2
            ELSE [x \in DOMAIN E2 |-> IF x \in asDel THEN [E2[x] EXCEPT !.kind = "deleted"] ELSE E2[x]]
      PredCL == UNION {CleanupFmt(E3, R2.lst[c], R2.dead \ CL, Have(R2) \ Have(R), Ids(emit.del) \ CL) : c \in MarkedConts(E2, R2)}
      ok == WellFormed(E2, o)
      changed == Have(R2) # Have(R) \/ (R2.dead \cup R2.gone) # (R.dead \cup R.gone)
      chk == IF ~ok THEN << <<"C04_Placed", FALSE>> >>
             ELSE StepChecks(E2, XD2, SEEN, r, R, R2, o, FALSE)
                  \o << <<"C01_NoFailure", outcome = "ok">>,
                        <<"C01_CleanupInvisible", C01_CleanupInvisible(E2, R2, CL)>>,
                        \* a unit that arrived with its structure may be turned into a collected range only once its
                        \* dependencies are integrated (otherwise it was dropped instead of being kept)
                        <<"C02_KeptUntilDeps",
                            \A x \in (R2.gone \ R.gone) \cap ({us[i].id : i \in RealUnits(us)} \cup R.pend) :
                               Deps(E2, x) \subseteq Have(R2)>>,
                        <<"C09_WireConsistent", WireConsistent(us) /\ WireConsistent(emit.ins) /\ wire = "">>,
                        <<"C07_EmitIffChanged", nev = (IF changed THEN <<1, 1>> ELSE <<0, 0>>)>> >>
                  \o (IF hasfol THEN FolChecks(E2, R2, o, fol.v1) \o FolChecks(E2, R2, o, fol.v2) ELSE <<>>)
                  \o extra(E2, R, R2)
      dr == (IF ok /\ ~PlacementPredicted(E2, R, R2) THEN {"placement"} ELSE {})
            \cup (IF ok /\ ~StashTight(R2) THEN {"stash-not-tight"} ELSE {})
            \cup (IF ok THEN StrongDrift(E2, XD2, UserDel, r, R2) ELSE {})
            \cup (IF ok /\ cfg[r].cf /\ PredCL # CL THEN {"cleanup-set"} ELSE {})
  IN /\ Record(Failing(chk), dr)
     /\ E' = E2 /\ XD' = XD2 /\ U' = U /\ SEEN' = SEEN
     /\ S' = [S EXCEPT ![r] = R2]
     /\ cnt' = [cnt EXCEPT !.ev = @ + 1, !.checks = @ + Len(chk)]

NoExtra(E2, R, R2) == <<>>

(* document-free update algebra (C08): what merge_updates / diff_updates produce is compared with
   the abstract meaning -- union of the merged updates, filtered by the state vector *)
ValidIdx(us) == \A i \in 1..Len(us) : us[i] \in 1..Len(U)
MergedIns(us) == UNION {U[us[i]].ins : i \in 1..Len(us)}
MergedDel(us) == UNION {U[us[i]].del : i \in 1..Len(us)}
SvAt(sv, c) == IF \E i \in 1..Len(sv) : sv[i][1] = c THEN sv[CHOOSE i \in 1..Len(sv) : sv[i][1] = c][2] ELSE 0
AlgebraChecks(E2, R, R2) ==
  IF ~ValidIdx(Ev.u) THEN << <<"C08_MergeExact", FALSE>> >>
  ELSE LET mi == MergedIns(Ev.u)
           md == MergedDel(Ev.u)
       IN << <<"C08_MergeExact", InsIds(Ev.full.ins) = mi /\ Ids(Ev.full.del) = md>>,
             <<"C08_DiffExact", ~Ev.diff \/
                  ( /\ InsIds(Ev.upd.ins) \subseteq mi
                    /\ {x \in mi : x[2] >= SvAt(Ev.svq, x[1])} \subseteq InsIds(Ev.upd.ins)
                    /\ Ids(Ev.upd.del) = md )>> >>

Deliver ==
  /\ Ev.k = "dlv" /\ ~failed
  /\ ApplyTo(Ev.r, [ins |-> Ev.full.ins, del |-> Ev.full.del], Ev.emit, Ev.outcome, Ev.wire, Ev.obs, Ev.nev, Ev.hasfol, Ev.fol, AlgebraChecks)
  /\ UNCHANGED <<ln0, bid, cfg>>

SvOfUpdate ==
  /\ Ev.k = "svu" /\ ~failed
  /\ LET ok == ValidIdx(Ev.u)
         mi == IF ok THEN MergedIns(Ev.u) ELSE {}
         gapfree == \A x \in mi : \A k \in 0..x[2] : <<x[1], k>> \in mi
         chk == << <<"C08_NoFailure", ok /\ Ev.outcome = "ok" /\ Ev.wire = "">>,
                   <<"C08_MergeExact", ok /\ InsIds(Ev.full.ins) = mi /\ Ids(Ev.full.del) = MergedDel(Ev.u)>>,
                   <<"C08_SvEq", ~gapfree \/ Ids(Ev.sv) \ {<<x[1], 0>> : x \in Ids(Ev.sv)} = SVOf(mi)>> >>
     IN /\ Record(Failing(chk), {})
        /\ cnt' = [cnt EXCEPT !.ev = @ + 1, !.checks = @ + Len(chk)]
  /\ UNCHANGED <<ln0, bid, E, XD, U, SEEN, S, cfg>>

(* state-vector sync: t applies what f encodes against a state vector of t *)
Sync ==
  /\ Ev.k = "sync" /\ ~failed
  /\ LET F == S[Ev.f]
         Extra(E2, R, R2) ==
           << <<"C06_SenderUnchanged",
                  ObsRep(Ev.fobs, F.dlv, F.ddel) = F>>,
              <<"C06_Dominates", Have(F) \subseteq Have(R2)>>,
              <<"C06_Reflects", (F.dead \cup F.gone) \subseteq (R2.dead \cup R2.gone)>>,
              <<"C02_StateCarriesStash", Ev.how # "state" \/
                   ( /\ (F.pend \ Have(R)) \subseteq InsIds(Ev.upd.ins)
                     /\ F.pds \subseteq Ids(Ev.upd.del) )>>,
              <<"C06_Complete", \A x \in Have(F) : x \in Have(R) \/ x \in InsIds(Ev.upd.ins)>>,
              <<"C06_Monotone", \A x \in SVOf(Have(R)) : \E y \in SVOf(Have(R2)) : y[1] = x[1] /\ y[2] >= x[2]>> >>
     IN ApplyTo(Ev.t, Ev.upd, Ev.emit, Ev.outcome, Ev.wire, Ev.obs, Ev.nev, Ev.hasfol, Ev.fol, Extra)
  /\ UNCHANGED <<ln0, bid, cfg>>

(* one committed transaction of the repository's own test-suite, recorded by hook H3 (no call, no public
   view): the property-level transition constraints and cross-replica invariants only *)
Txn ==
  /\ Ev.k = "txn" /\ ~failed
  /\ LET r  == Ev.r
         us == Ev.upd.ins
         E2 == Extend(us \o Ev.emit.ins \o Ev.pendu)
         R  == S[r]
         R2 == ObsRep(Ev.obs, R.dlv \cup InsIds(us), R.ddel \cup Ids(Ev.upd.del) \cup ImplicitDel(us))
         XD2 == XD \cup Ids(Ev.upd.del)
         ok == WellFormed(E2, Ev.obs)
         chk == IF ~ok THEN << <<"C04_Placed", FALSE>> >>
                ELSE StepChecks(E2, XD2, SEEN, r, R, R2, Ev.obs, TRUE)
         dr == (IF ok /\ ~PlacementPredicted(E2, R, R2) THEN {"placement"} ELSE {})
               \cup (IF ok /\ ~StashTight(R2) THEN {"stash-not-tight"} ELSE {})
     IN /\ Record(Failing(chk), dr)
        /\ E' = E2 /\ XD' = XD2 /\ U' = U /\ SEEN' = SEEN
        /\ S' = [S EXCEPT ![r] = R2]
        /\ cnt' = [cnt EXCEPT !.ev = @ + 1, !.checks = @ + Len(chk)]
  /\ UNCHANGED <<ln0, bid, cfg>>

Nondet ==
  /\ Ev.k = "nondet" /\ ~failed
  /\ Record({"C01_Deterministic"}, {})
  /\ UNCHANGED <<ln0, bid, E, XD, U, SEEN, S, cfg, cnt>>

(* the process executing this behaviour was killed by a signal (memory fault inside the library) *)
Crash ==
  /\ Ev.k = "crash" /\ ~failed
  /\ Record({"C01_NoFailure"}, {})
  /\ UNCHANGED <<ln0, bid, E, XD, U, SEEN, S, cfg, cnt>>

(* a rich-text schedule generated from the abstract lists (which hold no marks) that the real document cannot execute: *)
(* marks take part in the placement of concurrent insertions, so an index of the model may not exist (see yata.rs).      *)
(* Nothing is judged; the behaviour is counted as drift.                                                                *)
Inexec ==
  /\ Ev.k = "inexec" /\ ~failed
  /\ Record({}, {"inexecutable-schedule"})
  /\ UNCHANGED <<ln0, bid, E, XD, U, SEEN, S, cfg, cnt>>

TInit == /\ l = 1 /\ ln0 = 0 /\ bid = "" /\ E = EmptyFn /\ XD = {} /\ U = <<>> /\ SEEN = EmptyFn /\ S = EmptyFn /\ cfg = EmptyFn /\ failed = FALSE
         /\ viol = {} /\ drift = {} /\ cnt = [beh |-> 0, ev |-> 0, checks |-> 0]

TNext == /\ l <= Len(Rec)
         /\ l' = l + 1
         /\ (Reset \/ Skip \/ Local \/ Deliver \/ SvOfUpdate \/ Sync \/ Txn \/ Nondet \/ Crash \/ Inexec)

TSpec == TInit /\ [][TNext]_vars

(* the verdict is printed in the terminal state (a POSTCONDITION cannot read variables) *)
Verdict == l = Len(Rec) + 1 =>
             PrintT(<<"VERDICT", ToJson([viol |-> viol, drift |-> drift, cnt |-> cnt, lines |-> Len(Rec)])>>)
Consumed == TLCGet("stats").diameter = Len(Rec) + 1
=============================================================================
