SPECIFICATION Spec
INVARIANTS InvLaws InvCanon InvProg InvKind
CHECK_DEADLOCK FALSE
VIEW view
CONSTANTS
  Kind = "map"
  Clients = {1}
  U = 4
  AttrLists <- AttrsMap
  EmptyAt = {1}
  MaxOps = 3
  Pairs = TRUE
  FiMax = 0
