--------------------------- MODULE MC_StickyWide ---------------------------
(***************************************************************************)
(* Design model for texts with characters outside the BMP (C14 / C11 /     *)
(* C03 index semantics): the producer / consumer model of MC_Yata in which *)
(* an author may insert, next to single elements (BMP characters, w8 = 3), *)
(* SURROGATE PAIRS -- two elements with consecutive clocks, the first one  *)
(* carrying the character (w8 = 4), the second one nothing (w8 = 0) --,    *)
(* always at character boundaries, and deletes whole characters.  Sticky   *)
(* indexes are created at character boundaries; their anchor may be EITHER *)
(* element of the character next to the gap (the code under test stores    *)
(* the first element of a pair for a left-associated index when the        *)
(* document counts in bytes, the last one when it counts in UTF-16 units). *)
(* Checked in every reachable state of every replica:                      *)
(*  - a pair is never torn: its elements stay adjacent in the item list    *)
(*    (no concurrent insertion lands between them) and are visible or      *)
(*    tombstoned together;                                                 *)
(*  - the abstract meaning of Sticky.tla stays coherent: an index created  *)
(*    at boundary i designates i whichever element of the pair anchors it, *)
(*    the designated gap is a character boundary on every replica, it      *)
(*    separates the same elements everywhere, and the widths of Yata.tla   *)
(*    (WidthIn / Span of Events.tla) measure a visible text consistently.  *)
(***************************************************************************)
EXTENDS MC_Sticky, Events

Low(x) == <<x[1], x[2] + 1>>

(* insert one character outside the BMP at character boundary i of the text cn *)
LocalInsPair(r, cn, i) ==
  LET R   == S[r]
      c   == ContKey(cn, "")
      s   == Lst(R.lst, c)
      v   == Visible(E, R, c)
      lp  == IF i = 0 THEN 0 ELSE IndexOf(s, v[i])
      at  == SkipDead(s, R.dead, lp)
      id  == NextId(r)
      o   == IF at = 0 THEN None ELSE s[at]
      ro  == IF at = Len(s) THEN None ELSE s[at + 1]
      new == (id :> [Elem(o, ro, cn, "", "str", "") EXCEPT !.w8 = 4]) @@
             (Low(id) :> [Elem(id, ro, cn, "", "str", "") EXCEPT !.w8 = 0])
      E2  == AddElems(new)
      R2  == ApplyAlg(E2, R, DOMAIN new, {})
  IN /\ E' = E2 /\ XD' = XD
     /\ Emit(r, R2, DOMAIN new, {})
     /\ dels' = dels
     /\ hist' = Append(hist, [a |-> "ins", r |-> r, p |-> PathOf(R, cn, 4), i |-> i, n |-> 1, k |-> "W"])

(* a BMP character of 3 bytes *)
LocalInsBmp(r, cn, i) ==
  LET R   == S[r]
      c   == ContKey(cn, "")
      s   == Lst(R.lst, c)
      v   == Visible(E, R, c)
      lp  == IF i = 0 THEN 0 ELSE IndexOf(s, v[i])
      at  == SkipDead(s, R.dead, lp)
      id  == NextId(r)
      o   == IF at = 0 THEN None ELSE s[at]
      ro  == IF at = Len(s) THEN None ELSE s[at + 1]
      new == (id :> [Elem(o, ro, cn, "", "str", "") EXCEPT !.w8 = 3])
      E2  == AddElems(new)
      R2  == ApplyAlg(E2, R, DOMAIN new, {})
  IN /\ E' = E2 /\ XD' = XD
     /\ Emit(r, R2, DOMAIN new, {})
     /\ dels' = dels
     /\ hist' = Append(hist, [a |-> "ins", r |-> r, p |-> PathOf(R, cn, 4), i |-> i, n |-> 1, k |-> "u"])

(* the character next to gap i on the given side: both of its elements *)
CharOf(x) == {CharFirst(E, x), CharLast(E, x)}

MakeW(r) ==
  /\ phase = "A" /\ Cardinality(H) < MaxSticky
  /\ \E cn \in SeqConts(r) : \E assoc \in {"after", "before"} :
       LET c == ContKey(cn, "")
           v == Visible(E, S[r], c)
       IN \E i \in {j \in 0..Len(v) : OnCharBoundary(E, v, j)} :
            LET h == Sticky(c, cn[2], v, i, assoc)
            IN \E a \in (IF h.anchor = None THEN {None} ELSE CharOf(h.anchor)) : H' = H \cup {[h EXCEPT !.anchor = a]}
  /\ UNCHANGED vars

NextW ==
  \/ /\ phase = "A" /\ ops < MaxOps
     /\ \E r \in Authors : \E cn \in SeqConts(r) :
          LET v == Visible(E, S[r], ContKey(cn, "")) IN
            \/ \E i \in {j \in 0..Len(v) : OnCharBoundary(E, v, j)} : LocalInsBmp(r, cn, i) \/ LocalInsPair(r, cn, i)
            \/ /\ dels < MaxDel
               /\ \E i \in {j \in 0..(Len(v) - 1) : OnCharBoundary(E, v, j)} :
                    LocalDelN(r, cn, i, IF IsHighHalf(E, v[i + 1]) THEN 2 ELSE 1)
     /\ UNCHANGED H
  \/ /\ phase = "A"
     /\ \E f, t \in Authors : f # t /\ SyncFrom(f, t)
     /\ UNCHANGED H
  \/ /\ phase = "A" /\ ops = MaxOps
     /\ phase' = "B"
     /\ UNCHANGED <<E, XD, S, upd, got, known, ops, dels, hist, H>>
  \/ /\ phase = "B"
     /\ \E i \in 1..Len(upd) : i \notin Range(got) /\ Deliver(i)
     /\ UNCHANGED H
  \/ \E r \in Authors : MakeW(r)

SpecW == Init /\ H = {} /\ [][NextW]_varsS

---------------------------------------------------------------------------
Texts(r) == {c \in DOMAIN S[r].lst : ~Keyed(E, S[r].lst[c])}

(* the elements of a pair are neighbours in the item list of every replica that has them, and share their fate *)
InvPairAdjacent ==
  \A r \in Reps : \A c \in Texts(r) :
    LET s == S[r].lst[c] IN
      \A j \in 1..Len(s) :
         /\ IsLowHalf(E, s[j]) => (j > 1 /\ s[j - 1] = CharFirst(E, s[j]))
         /\ IsHighHalf(E, s[j]) => (j < Len(s) /\ s[j + 1] = Low(s[j]) /\ (s[j] \in S[r].dead) = (Low(s[j]) \in S[r].dead))
InvWholeChars == \A r \in Reps : \A c \in Texts(r) : WholeChars(E, Visible(E, S[r], c))

(* an index created now at any character boundary designates that boundary, whichever element of the character anchors it *)
InvGapAtCreationW ==
  \A r \in Authors : \A cn \in SeqConts(r) : \A assoc \in {"after", "before"} :
    LET c == ContKey(cn, "")
        v == Visible(E, S[r], c)
    IN \A i \in {j \in 0..Len(v) : OnCharBoundary(E, v, j)} :
         LET h == Sticky(c, cn[2], v, i, assoc)
         IN \A a \in (IF h.anchor = None THEN {None} ELSE CharOf(h.anchor)) :
              LET h2 == [h EXCEPT !.anchor = a]
              IN C14_AnchorRight(E, S[r], h2, i) /\ Resolvable(E, S[r], h2) /\ AnchorByRule(E, S[r], h2, i)

(* the designated gap lies within the text and on a character boundary *)
InvOnBoundary ==
  \A h \in H : \A r \in Reps :
    Resolvable(E, S[r], h) =>
      LET v == Visible(E, S[r], h.cont)
          k == ExpectedIndex(E, S[r], h)
      IN k \in 0..Len(v) /\ OnCharBoundary(E, v, k)

(* "after all visible elements that precede it and before all that follow it": elements of the anchoring character *)
(* lie on the anchor's side, every other visible element on the side the item list says                           *)
InvGapMeaningW ==
  \A h \in H : \A r \in Reps :
    (h.anchor # None /\ Resolvable(E, S[r], h)) =>
      LET R == S[r]
          v == Visible(E, R, h.cont)
          k == ExpectedIndex(E, R, h)
      IN \A j \in 1..Len(v) :
           IF v[j] \in CharOf(h.anchor) THEN (j <= k) = (h.assoc = "before")
           ELSE (j <= k) = LeftOfGap(R, h, v[j])

(* widths: a visible text measures the same whether counted by elements or through Span; bytes = 3 per BMP character,  *)
(* 4 per pair; every character boundary is reached by exactly one byte offset and one unit offset                     *)
InvWidths ==
  \A r \in Reps : \A c \in Texts(r) :
    LET v == Visible(E, S[r], c)
        B == {j \in 0..Len(v) : OnCharBoundary(E, v, j)}
    IN /\ WidthOfSeq(E, v, Len(v), "utf16") = Len(v)
       /\ \A j \in B : Span(E, v, 0, WidthOfSeq(E, v, j, "bytes"), "bytes") = j
       /\ \A j \in B : Span(E, v, 0, j, "utf16") = j
       /\ \A j \in (0..Len(v)) \ B : Span(E, v, 0, j, "utf16") = Len(v) + 1
       /\ \A i, j \in B : i < j => WidthOfSeq(E, v, i, "bytes") < WidthOfSeq(E, v, j, "bytes")
=============================================================================
