SPECIFICATION Spec
INVARIANTS PrintSchedules
CHECK_DEADLOCK FALSE
CONSTANTS
  MaxOps = 4
  MaxLen = 2
