SPECIFICATION TSpecX
INVARIANT Verdict
POSTCONDITION Consumed
CHECK_DEADLOCK FALSE
