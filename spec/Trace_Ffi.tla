----------------------------- MODULE Trace_Ffi -----------------------------
(***************************************************************************)
(* V stage of C19 (sequential part).  The trace was recorded by the C      *)
(* driver (harness/src/ffi.rs): every call of a SeqApi program performed   *)
(* through the exported C functions of yffi, every accessor read through   *)
(* the C API.  The events have the format of seqapi.rs, so the unchanged   *)
(* `Call` action of Trace_SeqApi binds the C API to the sequential         *)
(* specification (predicates C03_x / C17_x, reported as C19_Seq_x).        *)
(* In addition every event carries the observations of a TWIN document     *)
(* driven by the same program through the Rust API; the comparisons        *)
(* C side = Rust side are evaluated here (own violation set `fviol`).      *)
(***************************************************************************)
EXTENDS Trace_SeqApi

VARIABLES fviol, fcnt, fdrift, fkeys
fvars == <<l, ln0, bid, unit, D, W, failed, viol, drift, cnt, fviol, fcnt, fdrift, fkeys>>

USet(q) == {q[i] : i \in 1..Len(q)}
(* abstract content of an encoded state: units [id, origin, right origin, kind, text] and delete set *)
AbsEq(a, b) == /\ a.err = "" /\ b.err = ""
               /\ USet(a.units) = USet(b.units) /\ Len(a.units) = Len(b.units)
               /\ USet(a.ds) = USet(b.ds)

AttrReadsAgree(dump) ==
  \A t \in DOMAIN dump : "gattrs" \in DOMAIN dump[t] => PairSet(dump[t].gattrs) = PairSet(dump[t].attrs)

(* further twin observations (state vectors, diffs, snapshots, sticky indexes, observer payloads, undo round trip ...):   *)
(* every field is the canonical JSON text of the observation, compared field by field as strings                         *)
ExtrasEq(a, b) == DOMAIN a = DOMAIN b /\ \A k \in DOMAIN a : a[k] = b[k]

(* Two NATIVE executions of the same program in one process (twin.r, twin.r2): where they disagree on the encoded state the    *)
(* library itself is not deterministic for this program (attribute maps are iterated in hash order when several formatting     *)
(* keys are in force: the marks get their ids in a different order), so "the" state of a natively driven document, which the   *)
(* C-driven one has to equal, does not exist: the comparison is then DRIFT `native-nondeterministic`, not a verdict about the C API *)
(* formatting keys passed to the calls of this behaviour so far.  With two or more keys in play the library builds attribute  *)
(* maps with several entries and walks them in hash order: the encoded state of two NATIVE executions may differ already.       *)
KeysOfCall(ev) ==
  LET c == Norm(ev.ncall) IN
  {a[1] : a \in c.attrs} \cup UNION {{a[1] : a \in c.ops[j].attrs} : j \in 1..Len(c.ops)}
OrderSensitive(ev) == Cardinality(fkeys \cup KeysOfCall(ev)) >= 2

NativeDet(ev) ==
  /\ ~OrderSensitive(ev)
  /\ IF "r2" \in DOMAIN ev.twin
     THEN AbsEq(ev.twin.r.st, ev.twin.r2.st) /\ (ev.committed => AbsEq(ev.twin.r.sta, ev.twin.r2.sta))
     ELSE TRUE

FChecks(ev) ==
  << <<"C19_NoAbort", ~ev.aborted>>,   \* the process died inside an exported function (event written by the supervisor)
     <<"C19_EncodedStateEqual", ~NativeDet(ev) \/ (AbsEq(ev.twin.c.st, ev.twin.r.st) /\ (ev.committed => AbsEq(ev.twin.c.sta, ev.twin.r.sta)))>>,
     <<"C19_OutcomeEqual", ev.twin.c.outcome = ev.twin.r.outcome>>,
     <<"C19_XmlStringEqual", ev.twin.c.xml = ev.twin.r.xml>>,
     <<"C19_AttrReadsAgree", AttrReadsAgree(ev.dump)>>,
     <<"C19_ExtrasEqual", ~NativeDet(ev) \/ ExtrasEq(ev.twin.c.x, ev.twin.r.x)>> >>

FCall ==
  /\ Call
  /\ LET chk == FChecks(Ev)
     IN /\ fviol' = fviol \cup {<<bid, p, l - ln0>> : p \in Failing(chk)}
        /\ fcnt' = fcnt + Len(chk)
        /\ fdrift' = IF NativeDet(Ev) THEN fdrift ELSE fdrift \cup {<<bid, "native-nondeterministic", l - ln0>>}
        /\ fkeys' = fkeys \cup KeysOfCall(Ev)

TInitF == TInit /\ fviol = {} /\ fcnt = 0 /\ fdrift = {} /\ fkeys = {}
TNextF == /\ l <= Len(Rec) /\ l' = l + 1
          /\ \/ (Reset /\ fkeys' = {} /\ UNCHANGED <<fviol, fcnt, fdrift>>)
             \/ (Skip /\ UNCHANGED <<fviol, fcnt, fdrift, fkeys>>)
             \/ FCall
TSpecF == TInitF /\ [][TNextF]_fvars
VerdictF == l = Len(Rec) + 1 =>
              PrintT(<<"VERDICT", ToJson([viol |-> viol \cup fviol, drift |-> drift \cup fdrift,
                                          cnt |-> [cnt EXCEPT !.checks = @ + fcnt], lines |-> Len(Rec)])>>)
=============================================================================
