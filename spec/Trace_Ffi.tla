----------------------------- MODULE Trace_Ffi -----------------------------
(***************************************************************************)
(* V stage of C19 (sequential part).  The trace was recorded by the C      *)
(* driver (harness/src/ffi.rs): every call of a SeqApi program performed   *)
(* through the exported C functions of yffi, every accessor read through   *)
(* the C API.  The events have the format of seqapi.rs, so the unchanged   *)
(* `Call` action of Trace_SeqApi binds the C API to the sequential         *)
(* specification (predicates C03_x / C17_x, reported as C19_Seq_x).        *)
(* In addition every event carries the observations of a TWIN document     *)
(* driven by the same program through the Rust API; the comparisons        *)
(* C side = Rust side are evaluated here (own violation set `fviol`).      *)
(***************************************************************************)
EXTENDS Trace_SeqApi

VARIABLES fviol, fcnt
fvars == <<l, ln0, bid, unit, D, W, failed, viol, drift, cnt, fviol, fcnt>>

USet(q) == {q[i] : i \in 1..Len(q)}
(* abstract content of an encoded state: units [id, origin, right origin, kind, text] and delete set *)
AbsEq(a, b) == /\ a.err = "" /\ b.err = ""
               /\ USet(a.units) = USet(b.units) /\ Len(a.units) = Len(b.units)
               /\ USet(a.ds) = USet(b.ds)

AttrReadsAgree(dump) ==
  \A t \in DOMAIN dump : "gattrs" \in DOMAIN dump[t] => PairSet(dump[t].gattrs) = PairSet(dump[t].attrs)

(* further twin observations (state vectors, diffs, snapshots, sticky indexes, observer payloads, undo round trip ...):   *)
(* every field is the canonical JSON text of the observation, compared field by field as strings                         *)
ExtrasEq(a, b) == DOMAIN a = DOMAIN b /\ \A k \in DOMAIN a : a[k] = b[k]

FChecks(ev) ==
  << <<"C19_NoAbort", ~ev.aborted>>,   \* the process died inside an exported function (event written by the supervisor)
     <<"C19_EncodedStateEqual", AbsEq(ev.twin.c.st, ev.twin.r.st) /\ (ev.committed => AbsEq(ev.twin.c.sta, ev.twin.r.sta))>>,
     <<"C19_OutcomeEqual", ev.twin.c.outcome = ev.twin.r.outcome>>,
     <<"C19_XmlStringEqual", ev.twin.c.xml = ev.twin.r.xml>>,
     <<"C19_AttrReadsAgree", AttrReadsAgree(ev.dump)>>,
     <<"C19_ExtrasEqual", ExtrasEq(ev.twin.c.x, ev.twin.r.x)>> >>

FCall ==
  /\ Call
  /\ LET chk == FChecks(Ev)
     IN /\ fviol' = fviol \cup {<<bid, p, l - ln0>> : p \in Failing(chk)}
        /\ fcnt' = fcnt + Len(chk)

TInitF == TInit /\ fviol = {} /\ fcnt = 0
TNextF == /\ l <= Len(Rec) /\ l' = l + 1
          /\ \/ (Reset /\ UNCHANGED <<fviol, fcnt>>)
             \/ (Skip /\ UNCHANGED <<fviol, fcnt>>)
             \/ FCall
TSpecF == TInitF /\ [][TNextF]_fvars
VerdictF == l = Len(Rec) + 1 =>
              PrintT(<<"VERDICT", ToJson([viol |-> viol \cup fviol, drift |-> drift,
                                          cnt |-> [cnt EXCEPT !.checks = @ + fcnt], lines |-> Len(Rec)])>>)
=============================================================================
