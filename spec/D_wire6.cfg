CONSTANTS
  Mode = "codec"
  Alphabet = {0, 1, 2, 5}
  MaxLen = 6
SPECIFICATION Spec
INVARIANTS InvCodecRoundTrip
CHECK_DEADLOCK FALSE
