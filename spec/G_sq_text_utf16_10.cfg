CONSTANTS
  Family = "text"
  Unit = "utf16"
  MaxOps = 10
  Shape <- NoShape
SPECIFICATION Spec
INVARIANTS InvWellFormed InvUniqueTags PrintSchedules
CHECK_DEADLOCK FALSE
