CONSTANTS
  Family = "map"
  Unit = "utf16"
  MaxOps = 3
  Shape <- NoShape
SPECIFICATION Spec
INVARIANTS InvWellFormed InvUniqueTags PrintSchedules
CHECK_DEADLOCK FALSE
