CONSTANTS
  Kind = "x"
  MaxE = 6
  MaxUR = 3
  MaxF = 0
  UseStop = TRUE
  Flat = TRUE
  Pre = FALSE
  Shape = "any"
  MaxP = 1
  MaxW = 1
SPECIFICATION Spec
INVARIANTS InvExact InvRoundTrip InvNearest InvBounded PrintSchedules
CHECK_DEADLOCK FALSE
