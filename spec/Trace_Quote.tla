---------------------------- MODULE Trace_Quote ----------------------------
(***************************************************************************)
(* V stage for C20: validates traces of the `quote` extension of the Yata  *)
(* executor.  Base events (loc dlv sync svu nondet) are validated by the   *)
(* actions of Trace_Yata; this module adds                                  *)
(*   qloc    - quote / link / qdel: local operations on root map "m"        *)
(*             (validated like `Local`, plus the C20 predicates),           *)
(*   qskip   - a local-op step that could not be placed (keeps its slot),   *)
(*   unquote - dereference of stored quotations on replicas: the recorded   *)
(*             ids are compared with Quote!Content of the spec state,       *)
(* and follows every transaction of every replica to keep the `core` of     *)
(* every stored quotation (Quote!CoreStep) for the notification predicate.  *)
(***************************************************************************)
EXTENDS Trace_Yata, Quote

VARIABLES H,     \* handle -> quotation record (Quote.tla)
          QV,    \* <<replica, handle>> -> [p : stored?, v : content, o : observer installed?] at the previous
                 \* unquote result for that pair
          QT     \* <<replica, handle>> -> [c : core (quoted elements), frag : the core is only presumed (Quote!CoreStep),
                 \*   need / needf : the (firm / presumed) core changed under an installed observer since the previous
                 \*   unquote result for that pair]
qvars == <<H, QV, QT>>

BoolOf(x) == x = TRUE
GapFree(hv, id) == \A k \in 0..id[2] : <<id[1], k>> \in hv

(* replica r made a transaction (base variables already primed by the action this is conjoined with) *)
Track(r, HH) ==
  IF ~WellFormed(E', Ev.obs) THEN QT' = QT ELSE
  QT' = [key \in DOMAIN QT \cup {<<r, h>> : h \in DOMAIN HH} |->
           IF key[1] # r \/ key[2] \notin DOMAIN HH THEN QT[key]
           ELSE LET C    == IF key \in DOMAIN QT THEN QT[key].c ELSE {}
                    nd   == IF key \in DOMAIN QT THEN QT[key].need ELSE FALSE
                    ndf  == IF key \in DOMAIN QT THEN QT[key].needf ELSE FALSE
                    fr   == IF key \in DOMAIN QT THEN QT[key].frag ELSE FALSE
                    st   == CoreStep(E, S[r], E', S'[r], HH[key[2]], C)
                    \* an observer is known to be installed, and the quotation's own element lies in the gap-free prefix of
                    \* its client's clocks (TransactionMut::add_changed_type drops events of types created at or above the
                    \* replica's state-vector entry: a type integrated beyond a gap is mute -- not specific to quotations)
                    seen == key \in DOMAIN QV /\ QV[key].o /\ GapFree(Have(S[r]), HH[key[2]].wid)
                IN [c |-> st.c, frag |-> (fr /\ st.c # {}) \/ st.frag,
                    need |-> nd \/ (st.hit /\ seen /\ ~fr), needf |-> ndf \/ (st.hit /\ seen /\ fr)]]

---------------------------------------------------------------------------
(* quote / link / qdel: a local transaction of replica r on the map entry Ev.cont *)
QLocal ==
  /\ Ev.k = "qloc" /\ ~failed
  /\ LET r  == Ev.r
         us == Ev.upd.ins
         E2 == Extend(us)
         R  == S[r]
         R2 == ObsRep(Ev.obs, R.dlv \cup InsIds(us), R.ddel \cup Ids(Ev.upd.del) \cup ImplicitDel(us))
         ok == WellFormed(E2, Ev.obs)
         changed == Have(R2) # Have(R) \/ (R2.dead \cup R2.gone) # (R.dead \cup R.gone)
         newIds == InsIds(us)
         call == Ev.call
         done == Ev.outcome = "ok"
         skipped == Ev.outcome = "skip"
         visB == Visible(E, R, Ev.cont)
         visA == IF ok THEN Visible(E2, R2, Ev.cont) ELSE <<>>
         weak == {i \in RealUnits(us) : us[i].kind = "type" /\ us[i].t = "weak"}
         seqOk ==
           CASE ~done -> ~changed
             [] call.a \in {"quote", "link"} ->
                  /\ visA = <<Ev.wid>> /\ Ev.wid \in newIds
                  /\ \E i \in weak : us[i].id = Ev.wid
                  /\ Cardinality(newIds) = 1
             [] call.a = "qdel" -> visB # <<>> /\ visA = <<>>
             [] OTHER -> FALSE
         XD2 == IF call.a = "qdel" /\ done THEN XD \cup (Range(visB) \ Range(visA)) ELSE XD
         fresh == {us[i].id : i \in FreshIdx(us)}
         SEEN2 == [x \in DOMAIN SEEN \cup fresh |->
                     IF x \in DOMAIN SEEN THEN SEEN[x]
                     ELSE Range(Lst(R.lst, us[CHOOSE i \in FreshIdx(us) : us[i].id = x].cont))]
         srcVis == Visible(E, R, Ev.src)
         q == [kind |-> Ev.kind, key |-> Ev.cont, wid |-> Ev.wid, src |-> Ev.src,
               lo |-> IF call.a = "quote" /\ ~call.su /\ call.i + 1 \in 1..Len(srcVis) THEN srcVis[call.i + 1]
                      ELSE IF call.a = "link" THEN Ev.wlo ELSE None,
               hi |-> IF call.a = "quote" /\ ~call.eu /\ call.j + 1 \in 1..Len(srcVis) THEN srcVis[call.j + 1]
                      ELSE IF call.a = "link" THEN Ev.whi ELSE None,
               loInc |-> IF call.a = "quote" THEN BoolOf(call.si) ELSE TRUE,
               hiInc |-> IF call.a = "quote" THEN BoolOf(call.ei) ELSE TRUE]
         own == IF ~done THEN <<>>
                ELSE IF call.a = "quote" THEN
                  << <<"C20_BoundariesRight",
                       C20_BoundariesRight(srcVis, BoolOf(call.su), call.i, BoolOf(call.si), BoolOf(call.eu), call.j, BoolOf(call.ei),
                                           Ev.wlo, Ev.whi, BoolOf(Ev.wsa), BoolOf(Ev.wea), BoolOf(Ev.wsu), BoolOf(Ev.weu))>>,
                     <<"C20_SourceUntouched", C20_SourceUntouched(E, R, E2, R2, Ev.src)>> >>
                ELSE IF call.a = "link" THEN
                  << <<"C20_BoundariesRight", C20_LinkTargetRight(Lst(R.lst, Ev.src), Ev.wlo, Ev.whi)>>,
                     <<"C20_SourceUntouched", C20_SourceUntouched(E, R, E2, R2, Ev.src)>> >>
                ELSE
                  << <<"C20_SourceUntouched",
                       \A h \in DOMAIN H : H[h].key = Ev.cont => C20_SourceUntouched(E, R, E2, R2, H[h].src)>> >>
         chk == IF ~ok THEN << <<"C04_Placed", FALSE>> >>
                ELSE StepChecks(E2, XD2, SEEN2, r, R, R2, Ev.obs, FALSE)
                     \o << <<"C20_NoFailure", done \/ skipped>>,
                           <<"C09_WireConsistent", WireConsistent(us) /\ Ev.wire = "">>,
                           <<"C04_FreshIds", \A i \in RealUnits(us) : us[i].id \notin DOMAIN E /\ us[i].id[1] = r>>,
                           <<"C04_AllIntegrated", newIds \subseteq Have(R2) /\ R2.pend = R.pend>>,
                           <<"C20_Sequential", seqOk>>,
                           <<"C07_EmitIffChanged", Ev.nev = (IF changed THEN <<1, 1>> ELSE <<0, 0>>)>> >>
                     \o own
                     \o (IF Ev.hasfol THEN FolChecks(E2, R2, Ev.obs, Ev.fol.v1) \o FolChecks(E2, R2, Ev.obs, Ev.fol.v2) ELSE <<>>)
         dr == (IF ok /\ ~PlacementPredicted(E2, R, R2) THEN {"placement"} ELSE {})
               \cup (IF ok /\ ~StashTight(R2) THEN {"stash-not-tight"} ELSE {})
         H2 == IF done /\ call.a \in {"quote", "link"}
               THEN [h \in DOMAIN H \cup {Ev.h} |-> IF h = Ev.h THEN q ELSE H[h]]
               ELSE H
     IN /\ Record(Failing(chk), dr)
        /\ E' = E2 /\ XD' = XD2 /\ SEEN' = SEEN2
        /\ U' = Append(U, [ins |-> InsIds(us), del |-> Ids(Ev.upd.del)])
        /\ S' = [S EXCEPT ![r] = R2]
        /\ cnt' = [cnt EXCEPT !.ev = @ + 1, !.checks = @ + Len(chk)]
        /\ H' = H2
        /\ Track(r, H2)
  /\ UNCHANGED <<ln0, bid, cfg, QV>>

(* a boundary-relative edit that could not be placed on that replica: nothing happens, the slot stays *)
QSkip ==
  /\ Ev.k = "qskip" /\ ~failed
  /\ U' = IF Ev.slot THEN Append(U, [ins |-> {}, del |-> {}]) ELSE U
  /\ cnt' = [cnt EXCEPT !.ev = @ + 1]
  /\ UNCHANGED <<ln0, bid, E, XD, SEEN, S, cfg, failed, viol, drift, H, QV, QT>>

---------------------------------------------------------------------------
(* the checks of one dereference result x = [r, h, present, ids, outcome, wid, kind, o, fired]:
   o = an observer is installed on that stored quotation, fired = its firings since the previous result for <<r, h>> *)
ResChecks(x) ==
  IF x.h \notin DOMAIN H \/ x.r \notin DOMAIN S THEN << <<"C20_KnownHandle", FALSE>> >>
  ELSE LET q   == H[x.h]
           R   == S[x.r]
           st  == Stored(E, R, q)
           key == <<x.r, x.h>>
       IN << <<"C20_NoFailure", x.outcome = "ok">>,
             <<"C20_Reachable", BoolOf(x.present) = st /\ (st => x.wid = q.wid)>>,
             <<IF q.kind = "l" THEN "C20_LinkDeref" ELSE "C20_UnquoteExact",
               ~st \/ x.outcome # "ok" \/ (IF q.kind = "l" THEN C20_LinkDeref(E, R, q, x.ids) ELSE C20_UnquoteExact(E, R, q, x.ids))>>,
             <<"C20_NotifiedOnChange", C20_NotifiedOnChange(key \in DOMAIN QT /\ QT[key].need, x.fired)>>,
             <<"C20_NotifiedAfterStashedOverwrite", C20_NotifiedOnChange(key \in DOMAIN QT /\ QT[key].needf, x.fired)>> >>

ResDrift(x) ==
  IF x.h \notin DOMAIN H \/ x.r \notin DOMAIN S THEN {}
  ELSE LET q   == H[x.h]
           R   == S[x.r]
           st  == Stored(E, R, q)
           now == Content(E, R, q)
           key == <<x.r, x.h>>
       IN IF key \notin DOMAIN QV THEN {}
          ELSE (IF QV[key].o /\ x.fired > 0 /\ QV[key].p = st /\ QV[key].v = now THEN {"notified-without-change"} ELSE {})
               \cup (IF NotifyMiss(QV[key].o, QV[key].p, st, QV[key].v, now, x.fired) THEN {"notify-miss"} ELSE {})

(* a dereference does not change the document: whatever it shows, the specification state stays bound to the
   implementation state, so the behaviour is validated further (every later dereference is judged on its own).
   A violation found here is recorded as <<bid, predicate, event ordinal, index of the failing result in Ev.res>> *)
FailingRes(res) ==
  UNION {LET chk == ResChecks(res[k])
         IN {<<chk[i][1], k>> : i \in {j \in 1..Len(chk) : ~chk[j][2]}} : k \in 1..Len(res)}
NumChecks(res) == 5 * Len(res)

RecordSoft(bad, dr) ==
  /\ viol' = viol \cup {<<bid, f[1], l - ln0, f[2]>> : f \in bad}
  /\ drift' = drift \cup {<<bid, d, l - ln0>> : d \in dr}
  /\ UNCHANGED failed

Unquote ==
  /\ Ev.k = "unquote" /\ ~failed
  /\ LET res == Ev.res
         dr  == UNION {ResDrift(res[k]) : k \in 1..Len(res)}
         ok  == {k \in 1..Len(res) : res[k].h \in DOMAIN H /\ res[k].r \in DOMAIN S}
         listed == {<<res[k].r, res[k].h>> : k \in ok}
         ObsOf(key) == BoolOf(res[CHOOSE k \in ok : <<res[k].r, res[k].h>> = key].o)
     IN /\ RecordSoft(FailingRes(res), dr)
        /\ cnt' = [cnt EXCEPT !.ev = @ + 1, !.checks = @ + NumChecks(res)]
        /\ QV' = [key \in DOMAIN QV \cup listed |->
                    IF key \in listed
                    THEN [p |-> Stored(E, S[key[1]], H[key[2]]), v |-> Content(E, S[key[1]], H[key[2]]), o |-> ObsOf(key)]
                    ELSE QV[key]]
        /\ QT' = [key \in DOMAIN QT |-> IF key \in listed THEN [QT[key] EXCEPT !.need = FALSE, !.needf = FALSE] ELSE QT[key]]
  /\ UNCHANGED <<ln0, bid, E, XD, U, SEEN, S, cfg, H>>

---------------------------------------------------------------------------
TInitX == TInit /\ H = EmptyFn /\ QV = EmptyFn /\ QT = EmptyFn

TNextX ==
  /\ l <= Len(Rec)
  /\ l' = l + 1
  /\ \/ (Reset /\ H' = EmptyFn /\ QV' = EmptyFn /\ QT' = EmptyFn)
     \/ (Skip /\ UNCHANGED qvars)
     \/ (Local /\ Track(Ev.r, H) /\ UNCHANGED <<H, QV>>)
     \/ (Deliver /\ Track(Ev.r, H) /\ UNCHANGED <<H, QV>>)
     \/ (SvOfUpdate /\ UNCHANGED qvars)
     \/ (Sync /\ Track(Ev.t, H) /\ UNCHANGED <<H, QV>>)
     \/ (Nondet /\ UNCHANGED qvars)
     \/ (Crash /\ UNCHANGED qvars)
     \/ QLocal
     \/ QSkip
     \/ Unquote

TSpecX == TInitX /\ [][TNextX]_<<vars, qvars>>
=============================================================================
