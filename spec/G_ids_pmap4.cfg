SPECIFICATION Spec
INVARIANTS PrintSchedules
CHECK_DEADLOCK FALSE
VIEW view
CONSTANTS
  Kind = "map"
  Clients = {1}
  U = 4
  AttrLists <- AttrsMap
  EmptyAt = {}
  MaxOps = 4
  Pairs = TRUE
  FiMax = 0
