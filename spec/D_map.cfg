CONSTANTS
  Authors = {1, 2}
  Obs = 8
  MaxOps = 3
  SeqRoots = {}
  MapKeys = {"k1", "k2"}
  Nest = FALSE
  MaxDel = 2
  Merge = FALSE
  Script <- NoScript
  Dups = TRUE
SPECIFICATION Spec
INVARIANTS InvOnce InvPlaced InvBetween InvDepClosed InvNothingLost InvPending InvConverge InvPairOrder InvClosed 
CHECK_DEADLOCK FALSE
VIEW view
